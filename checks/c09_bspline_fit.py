"""C09 - B-spline fit is the weighted least-squares optimum; failure is a status code.

Events: sset.fit(x, y, invvar) -> (status, yfit), sset.coeff / sset.mask; cholesky_band(l, mininf), cholesky_solve(a, b).
Oracle: dense weighted least squares (numpy lstsq) on the design matrix built by an independent Cox-de Boor recursion;
dense reconstruction L L^T = A / A x = b for the banded Cholesky pair; status/mask discipline for ill-posed problems.
"""
import warnings
import numpy as np
from vlib.harness import Check, np_rng
from vlib.refs import bspline_ref as BR


def band_to_dense(l, n):
    bw = l.shape[0]
    A = np.zeros((n, n))
    for i in range(bw):
        for j in range(n - i):
            A[j + i, j] = l[i, j]
            A[j, j + i] = l[i, j]
    return A


def lower_to_dense(L, n):
    bw = L.shape[0]
    M = np.zeros((n, n))
    for i in range(bw):
        for j in range(n - i):
            M[j + i, j] = L[i, j]
    return M


class C09(Check):
    ID = 'C09'
    RULE = ('well-supported problems: sorted abscissae (uniform/clustered), order 2-5, breakpoints by count/spacing/every-n, '
            'every interval holding >= order+1 positively weighted points, weights within 3 decades, 0-10% zero weights: '
            'status 0 and agreement with dense weighted lstsq (fitted values, coefficients), polynomial reproduction, '
            'invariance under changes of y at zero-weight points, linearity in y.  Cholesky: random SPD banded matrices '
            '(bandwidth 1-6, n 2-60) and non-PD / non-finite ones.  Ill-posed fits: data gaps wider than the breakpoint '
            'spacing (also with isolated points inside), empty segments, zero-weight runs, fewer good points than order, <= 2*order breakpoints - the call must '
            'return a status and finite coefficients, repeated fitting must terminate, and a final status 0 must be the weighted LS optimum over the unmasked breakpoints.  Fits with inputs that are not finite numbers '
            '(class nonfinite: NaN / +-inf inverse variances at one, a few, a run of or all points, negative inverse variances, NaN / +-inf abscissae '
            'after, before or among the finite ones): the normal matrix is non-finite, so the call must return an integer status other than success '
            '(unless the curve is the optimum over the usable points), finite coefficients, the same verdict for blank data, and every cholesky_band '
            'call made by fit() with a non-finite matrix must signal it.  Non-trivial: well-posed with >= 4 '
            'intervals, or ill-posed reaching maskpoints / the Cholesky fallback; distinct by input hash.')
    ASSUMPTIONS = ['fit() is called with sorted abscissae as its docstring requires (class nonfinite: the finite abscissae are sorted)',
                   'non-finite ordinates y are outside the property (it speaks of the matrix A and of impossible fits, not of the right-hand '
                   'side): they are not generated',
                   'well-posed problems use quasi-uniform breakpoints (interval widths within a factor 3) and weights within 3 '
                   'decades, so cond(A^T W A) <~ 1e8 and the 1e-7*max|y| tolerance on fitted values has margin; wildly uneven '
                   'knot vectors legitimately trigger the fit\'s min_influence guard (status -1) and are not asserted to give 0']
    REQUIRED_COUNTERS = ('fit_nonfinite_matrix_signalled', 'fit_nonfinite_matrix_signalled_without_a_column', 'nonfinite_fits_weights',
                         'nonfinite_fits_abscissae', 'nonfinite_fits_negative_weights', 'fits_with_fewer_good_breakpoints_than_the_order', 'status_compared_with_blank_data_twin', 'long_fits_points_times_order_over_2**21', 'wellposed_weakest_coefficient_below_1e-10_of_strongest', 'wellposed_abscissae_with_large_offset', 'wellposed_zero_weight_points_outside_the_knots', 'solve_rhs_be_f8', 'solve_rhs_f4', 'canary_sequences', 'status0_optimality_checked', 'wellposed_status0', 'maskpoints_entered', 'cholesky_fallback_entered', 'status_minus1', 'status_minus2',
                         'spd_factorisations', 'nonpd_signalled', 'nonfinite_signalled', 'zero_weight_invariance_checked')
    CASE_CPU_S = 60

    def setup(self):
        import pydl.pydlutils.bspline as B
        self.B = B
        self._mp = 0
        self.brd.per_case = 3
        self.brd.attach(self.rec, B.bspline, 'fit', every=2)                  # buffer-reuse differential (vlib/brd.py)
        self.brd.attach(self.rec, B, 'cholesky_band', every=3, own=True)
        self.brd.attach(self.rec, B, 'cholesky_solve', every=3, own=True)
        self.rec.wrap(B.bspline, 'fit')
        self.rec.wrap(B.bspline, 'maskpoints')
        self._cb = []
        self.rec.wrap(B, 'cholesky_band', result=self._cholesky_band_returned)
        self.rec.wrap(B, 'cholesky_solve')
        self.rec.wrap(B, 'cholesky_banded', label='scipy.cholesky_banded')     # LinAlgError here == fallback loop entered
        for f in (B.bspline.fit, B.bspline.maskpoints, B.bspline.action, B.cholesky_band, B.cholesky_solve):
            self.reach.add(f)

    def teardown(self):
        self.rec.unwrap_all()

    def _cholesky_band_returned(self, a, k, r):
        # observer of every cholesky_band call (also those made from inside fit): was the matrix finite, what came back
        try:
            l = a[0] if a else k.get('l')
            e = r[0]
            if isinstance(e, (int, np.integer)) and not isinstance(e, bool):
                kind = 'success' if e == -1 else 'column'
            else:
                kind = 'no_column' if np.size(e) == 0 else 'columns'
            self._cb.append((bool(np.all(np.isfinite(l))), kind))
        except Exception as exc:                                   # never disturb the call observed
            self._cb.append((None, 'observer: %r' % (exc,)))

    def budget(self, tier):
        k = 1 if tier == 'quick' else 120
        return {'wellposed': 500 * k, 'cholesky_spd': 400 * k, 'cholesky_bad': 400 * k, 'illposed': 600 * k, 'nonfinite': 400 * k,
                'long': 4 if tier == 'quick' else 40}

    # ------------------------------------------------------------------ gen
    def gen(self, cls, rng, i):
        g = np_rng(rng)
        if cls == 'wellposed':
            k = rng.randint(2, 5)
            nint = rng.randint(1, 12)
            per = rng.randint(k + 1, k + 12)
            # quasi-uniform breakpoints (adjacent widths within a factor 3): the fit's own conditioning guard
            # (min_influence = 1e-10 * mean weight) legitimately drops breakpoints of wildly uneven knot vectors
            if rng.random() < 0.3:
                wd = g.uniform(1.0, 3.0, nint)
                edges = np.concatenate([[0.0], np.cumsum(wd) / wd.sum() * 10.0])
                edges[-1] = 10.0
            else:
                edges = np.linspace(0, 10, nint + 1)
            xs = []
            for a, b in zip(edges[:-1], edges[1:]):
                xs.append(g.uniform(a + 0.02 * (b - a), b - 0.02 * (b - a), per))
            x = np.sort(np.concatenate(xs + [[0.0, 10.0]]))
            if rng.random() < 0.3:
                # repeated abscissae (exposures merged on a common grid, quantised positions): sorted, not strictly increasing
                j = g.integers(1, x.size - 1, max(1, x.size // 8))
                x[j] = x[j - 1]
                x = np.sort(x)
            n = x.size
            w = 10 ** g.uniform(-1.5, 1.5, n)
            zero = g.uniform(size=n) < rng.choice([0, 0.05, 0.1])
            # keep >= k+1 positive weights per interval
            for a, b in zip(edges[:-1], edges[1:]):
                inb = np.nonzero((x >= a) & (x <= b))[0]
                z = inb[zero[inb]]
                if inb.size - z.size < k + 1:
                    zero[z] = False
            w[zero] = 0.0
            # the optimum does not depend on the units of the weights: a third of the cases carry inverse variances of
            # counts (1e-12) to micro-flux units (1e12)
            if rng.random() < 0.35:
                w = w * 10 ** rng.uniform(-12, 12)
            if rng.random() < 0.3:
                # zero-weight pixels beyond both ends of the good data (the spline set is then built from the good points only,
                # as iterfit does, and the fit receives all points)
                w[0] = w[-1] = float(np.median(w[w > 0]))
                lo = -np.sort(g.uniform(0.01, 0.8, rng.randint(1, 4)))[::-1]
                hi = 10 + np.sort(g.uniform(0.01, 0.8, rng.randint(0, 3)))
                x = np.concatenate([lo, x, hi])
                w = np.concatenate([np.zeros(lo.size), w, np.zeros(hi.size)])
                n = x.size
            scale = 10 ** rng.uniform(-3, 3)
            y = scale * (np.sin(x * rng.uniform(0.3, 2)) + g.normal(0, 0.1, n))
            if rng.random() < 0.2:
                # abscissae with a large additive offset (Julian dates, Unix seconds, pixel numbers of a mosaic): the breakpoint
                # spacing is then tiny relative to the breakpoint values themselves
                off = rng.choice([2451545.0, 2460000.5, 1.7e9, 1.0e5, -3.0e4, 2.0 ** 20])
                x = x + off
                edges = edges + off
            case = {'kind': cls, 'x': x.tolist(), 'y': y.tolist(), 'w': w.tolist(), 'nord': k, 'bkpt': edges.tolist(),
                    'seed': rng.getrandbits(32)}
            if rng.random() < 0.15:
                # the weight concentrated on one or two very precise pixels among many ordinary ones (a cosmic-ray-free standard
                # star pixel among sky pixels, a pixel with a mis-scaled variance): 20-60 segments, ordinary weights within a
                # factor 2 of each other; how precise is decided at run time so that every coefficient stays supported (see run)
                k = rng.randint(3, 5)
                nint = rng.randint(20, 60)
                per = rng.randint(k + 1, k + 8)
                edges = np.linspace(0, 10, nint + 1)
                x = np.sort(np.concatenate([g.uniform(a + 0.02 * (b - a), b - 0.02 * (b - a), per) for a, b in zip(edges[:-1], edges[1:])]
                                           + [[0.0, 10.0]]))
                w = g.uniform(0.5, 2.0, x.size) * 10 ** rng.choice([0, 0, -6, 5])
                y = scale * (np.sin(x * rng.uniform(0.3, 2)) + g.normal(0, 0.1, x.size))
                case.update(x=x.tolist(), y=y.tolist(), w=w.tolist(), nord=k, bkpt=edges.tolist(),
                            precise={'idx': sorted(int(j) for j in g.choice(np.arange(3, x.size - 3), rng.randint(1, 2), replace=False)),
                                     'tau': rng.uniform(0.1, 0.45)})
            return case
        if cls == 'long':
            # long vectors (a whole plate's sky pixels, a co-added stack): the number of points times the order just beyond a power
            # of two between 2**20 and 2**22, never an exact multiple of a round block size; the data are made from the seed at run time
            k = rng.randint(2, 6)
            nx = (2 ** rng.choice([20, 21, 21, 22])) // k + rng.choice([1, 2, 3, 7, 100, 1001, 4097, 65537])
            return {'kind': cls, 'nord': k, 'nx': nx, 'nint': rng.randint(3, 12), 'seed': rng.getrandbits(32)}
        if cls == 'nonfinite':
            # fits whose inputs are not all finite numbers, as reduction pipelines produce them: inverse variances computed as
            # 1/var (var = 0 -> inf, 0/0 -> NaN, dead pixels flagged by NaN), negative "inverse variances" of a mis-subtracted
            # variance map, abscissae with NaN / inf entries that a sort leaves at the ends.  The normal matrix is then
            # non-finite (or not positive definite): the fit is impossible and has to say so through its status.
            k = rng.randint(2, 5)
            nbk = rng.randint(2, 25)
            mode = rng.choice(['w_nan', 'w_nan', 'w_nan', 'w_inf', 'w_neginf', 'w_nan_and_inf', 'w_inf_and_neginf',
                               'x_nan_tail', 'x_inf_tail', 'x_neginf_head', 'x_nan_inside', 'w_negative', 'w_negative'])
            n = max(rng.randint(30, 120), nbk * (k + 2) * rng.randint(1, 2))
            x = np.sort(g.uniform(0, 10, n))
            if rng.random() < 0.25:
                a = rng.uniform(0.5, 7)                       # ... on top of a data gap
                keep = (x < a) | (x > a + rng.uniform(1.0, 3.0) * 10.0 / max(nbk - 1, 1))
                if keep.sum() >= 10:
                    x = x[keep]
            n = x.size
            w = g.uniform(0.5, 2.0, n) * 10 ** (0 if rng.random() < 0.6 else rng.uniform(-12, 12))
            w[g.uniform(size=n) < rng.choice([0, 0, 0.05, 0.1])] = 0.0
            where = rng.choice(['one', 'one', 'few', 'run', 'all', 'first', 'last'])
            if where == 'one':
                idx = [rng.randrange(n)]
            elif where == 'few':
                idx = sorted(rng.sample(range(n), rng.randint(2, 6)))
            elif where == 'run':
                a = rng.randrange(0, n - 3)
                idx = list(range(a, min(n, a + rng.randint(2, max(3, n // 3)))))
            elif where == 'all':
                idx = list(range(n))
            else:
                idx = [0] if where == 'first' else [n - 1]
            idx = np.array(idx)
            y = np.sin(x) + g.normal(0, 0.1, n)
            if mode == 'w_nan':
                w[idx] = np.nan
            elif mode == 'w_inf':
                w[idx] = np.inf
            elif mode == 'w_neginf':
                w[idx] = -np.inf
            elif mode == 'w_nan_and_inf':
                w[idx] = np.inf
                w[rng.randrange(n)] = np.nan
            elif mode == 'w_inf_and_neginf':
                w[idx] = np.inf
                w[rng.randrange(n)] = -np.inf
            elif mode == 'w_negative':
                w[idx] = -np.abs(w[idx] + (w[idx] == 0)) * 10 ** rng.uniform(-3, 3)
            else:
                # NaN (or +inf) abscissae after the finite ones, where numpy's sort puts them; the spline set is built from the
                # finite abscissae, the fit receives all points; the extra points carry a weight or none
                # (also -inf before them, and a NaN among them: one pixel of a wavelength solution that failed)
                m = rng.randint(1, 4)
                wm = np.zeros(m) if rng.random() < 0.5 else g.uniform(0.5, 2.0, m)
                if mode == 'x_nan_inside':
                    j = np.array(sorted(rng.sample(range(1, n - 1), m)))
                    x[j] = np.nan
                    w[j] = wm
                elif mode == 'x_neginf_head':
                    x = np.concatenate([np.full(m, -np.inf), x])
                    y = np.concatenate([g.normal(0, 1, m), y])
                    w = np.concatenate([wm, w])
                else:
                    x = np.concatenate([x, np.full(m, np.nan if mode == 'x_nan_tail' else np.inf)])
                    y = np.concatenate([y, g.normal(0, 1, m)])
                    w = np.concatenate([w, wm])
            return {'kind': cls, 'mode': mode, 'where': where, 'x': x.tolist(), 'y': y.tolist(), 'w': w.tolist(), 'nord': k,
                    'nbkpts': nbk}
        if cls in ('cholesky_spd', 'cholesky_bad'):
            bw = rng.randint(1, 6)
            n = rng.randint(max(2, bw), 60)
            Bm = np.zeros((n, n))
            for d in range(bw):
                Bm += np.diag(g.normal(size=n - d), -d)
            A = Bm @ Bm.T + 10 ** rng.uniform(-3, 0) * np.eye(n)      # SPD, bandwidth bw
            if rng.random() < 0.35:
                A = A * 10 ** rng.uniform(-12, 12)                    # positive definiteness has no absolute scale
            mode = 'spd'
            if cls == 'cholesky_bad':
                mode = rng.choice(['neg_diag', 'zero_diag', 'indefinite', 'nan', 'inf', 'nan_offdiag'])
                j = rng.randrange(n)
                if mode == 'neg_diag':
                    A[j, j] = -abs(A[j, j])
                elif mode == 'zero_diag':
                    A[j, j] = 0.0
                elif mode == 'indefinite':
                    # positive diagonal but not positive definite
                    if bw == 1:
                        mode = 'neg_diag'
                        A[j, j] = -abs(A[j, j])
                    else:
                        j = rng.randrange(n - 1)
                        big = 3 * np.sqrt(A[j, j] * A[j + 1, j + 1])
                        A[j + 1, j] = A[j, j + 1] = big
                elif mode == 'nan':
                    A[j, j] = np.nan
                elif mode == 'inf':
                    A[j, j] = np.inf
                else:
                    if bw == 1:
                        A[j, j] = np.nan
                    else:
                        j = rng.randrange(n - 1)
                        A[j + 1, j] = A[j, j + 1] = np.nan
            l = np.zeros((bw, n + bw))
            for d in range(bw):
                l[d, :n - d] = np.diag(A, -d)
            return {'kind': cls, 'mode': mode, 'bw': bw, 'n': n, 'l': [[float(v) for v in r] for r in l],
                    'b': g.normal(size=n).tolist()}
        # ill-posed fits
        k = rng.randint(2, 5)
        mode = rng.choice(['gap', 'gap', 'gap_isolated', 'gap_isolated', 'empty_segments', 'zero_run', 'few_points', 'few_bkpts', 'all_zero',
                           'caller_masked'])
        nbk = rng.randint(2, 25) if mode != 'few_bkpts' else rng.randint(2, 3)
        n = rng.randint(30, 200)
        x = np.sort(g.uniform(0, 10, n))
        w = np.ones(n) * 10 ** (rng.uniform(-2, 2) if rng.random() < 0.7 else rng.uniform(-12, 12))
        if mode == 'gap':
            a = rng.uniform(0.5, 7)
            width = rng.uniform(1.0, 3.0) * 10.0 / max(nbk - 1, 1) * rng.choice([1, 2, 3])
            x = x[(x < a) | (x > a + width)]
            if x.size < 6:
                x = np.sort(g.uniform(0, 10, 30))
            w = w[:x.size]
        elif mode == 'gap_isolated':
            # a gap wider than the breakpoint spacing holding one or two isolated points: the normal matrix keeps a positive
            # diagonal there but is not positive definite (the Cholesky fallback has to locate the column)
            a = rng.uniform(0.5, 6)
            width = rng.uniform(1.5, 4.0) * 10.0 / max(nbk - 1, 1)
            keep = (x < a) | (x > a + width)
            iso = np.sort(g.uniform(a + 0.1 * width, a + 0.9 * width, rng.randint(1, 2)))
            x = np.sort(np.concatenate([x[keep], iso]))
            if x.size < 8:
                x = np.sort(g.uniform(0, 10, 30))
            w = np.ones(x.size) * 10 ** rng.uniform(-2, 2)
        elif mode == 'empty_segments':
            x = np.sort(np.concatenate([g.uniform(0, 1, n // 2), g.uniform(9, 10, n - n // 2)]))
        elif mode == 'zero_run':
            a = rng.randrange(0, n - 5)
            w[a:a + rng.randint(5, max(6, n // 2))] = 0.0
        elif mode == 'few_points':
            x = np.sort(g.uniform(0, 10, rng.randint(2, k + 2)))
            w = np.ones(x.size)
        elif mode == 'all_zero':
            w[:] = 0.0
        y = np.sin(x) + g.normal(0, 0.1, x.size)
        case = {'kind': cls, 'mode': mode, 'x': x.tolist(), 'y': y.tolist(), 'w': w.tolist(), 'nord': k, 'nbkpts': nbk}
        if mode == 'caller_masked':
            # breakpoints masked by the caller before the fit (as iterfit's requiren rule does): 0 .. order-1 good ones are left
            # beyond the first `order` knots, or a few more
            case['keep_good'] = rng.choice([0, 0, 1, max(0, k - 1), k, k + 1])
            case['mask_from'] = rng.choice(['end', 'start', 'random'])
            case['mask_seed'] = rng.getrandbits(32)
        return case

    # ------------------------------------------------------------------ run
    def canary(self):
        """Fixed, ordinary calls one after another (see vlib.harness.canary_setup): a not-positive-definite band matrix, an
        ill-posed fit across a gap (fallback path), a well-posed fit with zero weights, a plain factor/solve pair."""
        B = self.B
        g = np.random.default_rng(987)
        res = []

        def rec(f):
            try:
                with warnings.catch_warnings():
                    warnings.simplefilter('ignore')
                    res.append(('ok',) + tuple(f()))
            except Exception as e:
                res.append(('raised', type(e).__name__, str(e)[:80]))
        l = np.zeros((2, 8))
        l[0, :6] = [4, 4, 1e-9, 4, 4, 4]
        l[1, :5] = [1, 3, 3, 1, 1]

        def bad():
            e, m = B.cholesky_band(l.copy(), mininf=0.0)
            return (np.atleast_1d(np.asarray(e)).tobytes(),)
        rec(bad)
        x = np.sort(np.concatenate([g.uniform(0, 3, 40), g.uniform(7, 10, 40)]))
        y = np.sin(x)

        def gap():
            s = B.bspline(x, nord=4, nbkpts=14)
            st, yf = s.fit(x, y, np.ones(x.size))
            return (int(st), np.asarray(s.mask).tobytes(), np.isfinite(s.coeff).all())
        rec(gap)
        x2 = np.linspace(0, 10, 90)
        w2 = np.ones(90)
        w2[[5, 6, 40]] = 0.0

        def good():
            s = B.bspline(x2, nord=3, nbkpts=8)
            st, yf = s.fit(x2, np.cos(x2), w2)
            return (int(st), np.asarray(s.coeff, dtype='f8').round(10).tobytes())
        rec(good)
        return res

    def run(self, case, out):
        del self._cb[:]
        try:
            getattr(self, 'run_' + case['kind'])(case, out)
        finally:
            if case['kind'] not in ('cholesky_spd', 'cholesky_bad'):
                # every factorisation requested from inside a fit: a non-finite matrix is never reported as factorised
                for finite, kind in self._cb:
                    if finite is None:
                        out.fail('harness-error', kind)
                    elif not finite:
                        out.expect(kind != 'success', 'signal', 'cholesky_band, called by fit(), reported a non-finite matrix as factorised')
                        out.count('fit_nonfinite_matrix_signalled', kind != 'success')
                        out.count('fit_nonfinite_matrix_signalled_without_a_column', kind == 'no_column')

    def run_wellposed(self, case, out):
        B = self.B
        x = np.array(case['x'])
        y = np.array(case['y'])
        w = np.array(case['w'])
        k = case['nord']
        with warnings.catch_warnings():
            warnings.simplefilter('ignore')
            xg = x[w > 0]                     # the spline set is built from the good points (all points, unless some lie outside)
            out.count('wellposed_abscissae_with_large_offset', abs(float(xg.min())) > 1e4)
            inside = (x >= xg.min()) & (x <= xg.max())
            out.count('wellposed_zero_weight_points_outside_the_knots', int((~inside).sum()))
            s = B.bspline(xg, nord=k, bkpt=np.array(case['bkpt']))
            if case.get('precise'):
                # "supported" has a quantitative meaning in fit(): the diagonal of the normal equations of every coefficient,
                # sum(invvar * B_j(x)^2), must exceed 1e-10 of the mean inverse variance per coefficient.  The precise pixels get the
                # largest weight for which every coefficient keeps a margin 1/tau (2.2 ... 10) over that level: typically 1e9-1e11
                # times the ordinary weights.
                t0 = np.asarray(s.breakpoints, dtype='f8')
                A0 = BR.basis_matrix(t0, k, x, extrapolate=True)
                nfull = A0.shape[1]
                idx = np.array(case['precise']['idx'])
                d0 = float((w[:, None] * A0 ** 2).sum(axis=0).min())
                R = (case['precise']['tau'] * d0 * nfull / 1e-10 - float(w.sum())) / float(w[idx].sum())
                if R > 10:
                    w = w.copy()
                    w[idx] *= R
                diag = (w[:, None] * A0 ** 2).sum(axis=0)
                guard = 1e-10 * float(w.sum()) / nfull
                if not (R > 10 and float(diag.min()) >= 2 * guard):
                    out.undecide()
                    return
                out.count('wellposed_weight_concentrated_on_few_pixels')
                out.count('wellposed_weight_ratio_over_1e9', R > 1e9)
                out.count('wellposed_weakest_coefficient_below_1e-10_of_strongest', float(diag.min()) < 1e-10 * float(diag.max()))
                out.info.update(weight_ratio=R)
            st, yfit = s.fit(x, y, w)
        if not out.expect(st == 0, 'status', 'well-supported fit returned status %r' % (st,)):
            return
        out.count('wellposed_status0')
        t = np.asarray(s.breakpoints, dtype='f8')
        A = BR.basis_matrix(t, k, x, extrapolate=True)
        c, rank, sv = BR.wls(A, y, w)
        ys = max(float(np.abs(y).max()), 1e-300)
        fit_ref = A @ c
        dev = float(np.abs(yfit - fit_ref)[inside].max())
        # the code solves the normal equations: error ~ cond(A sqrt(W))^2 * eps, the reference (lstsq) ~ cond * eps
        cond = float(sv[0] / sv[-1]) if sv[-1] > 0 else np.inf
        ftol = max(1e-7, 100 * 1.1e-16 * cond ** 2)
        if ftol > 1e-4:
            out.undecide()
            return
        out.expect(dev <= ftol * ys, 'optimum', 'fitted values differ from the dense weighted LS solution by %.3g (limit %.3g)' % (dev, ftol * ys),
                   condition=float(sv[0] / sv[-1]) if sv[-1] > 0 else None)
        # chi-square not worse than the independent optimum (first-order optimality)
        chi = float(np.sum(w * (y - yfit) ** 2))
        chi_ref = float(np.sum(w * (y - fit_ref) ** 2))
        out.expect(chi <= chi_ref * (1 + 1e-9) + 1e-12 * ys * ys, 'optimum', 'chi-square %.9g exceeds the independent optimum %.9g' % (chi, chi_ref))
        cdev = float(np.abs(s.coeff - c).max())
        cs = max(float(np.abs(c).max()), 1e-300)
        out.expect(cdev <= max(1e-5, 1e4 * 1.1e-16 * cond ** 2) * cs, 'optimum', 'coefficients differ from dense LS by %.3g (scale %.3g)' % (cdev, cs))
        out.expect(bool(np.all(s.mask)), 'status', 'status 0 but a breakpoint was masked')
        g = np.random.default_rng(case['seed'])
        # polynomial of degree < order is reproduced
        pc = g.normal(size=k)
        p = np.polyval(pc, (x - xg.min() - 5) / 5)
        s2 = B.bspline(xg, nord=k, bkpt=np.array(case['bkpt']))
        st2, pf = s2.fit(x, p, w)
        ps = max(float(np.abs(p).max()), 1e-300)
        out.expect(st2 == 0 and float(np.abs(pf - p)[inside].max()) <= max(1e-8, ftol / 10) * ps, 'polynomial',
                   'polynomial of degree %d not reproduced: dev %.3g' % (k - 1, float(np.abs(pf - p)[inside].max()) / ps))
        # zero-weight points do not influence the coefficients (bit-identical)
        if np.any(w == 0):
            y3 = y.copy()
            y3[w == 0] += g.normal(0, 1e3 * ys, int((w == 0).sum()))
            s3 = B.bspline(xg, nord=k, bkpt=np.array(case['bkpt']))
            st3, f3 = s3.fit(x, y3, w)
            out.expect(st3 == 0 and np.array_equal(s3.coeff, s.coeff), 'zero-weight', 'altering y at zero-weight points changed the coefficients',
                       maxdiff=float(np.abs(s3.coeff - s.coeff).max()))
            out.count('zero_weight_invariance_checked')
        # linearity
        al, be = g.normal(), g.normal()
        s4 = B.bspline(xg, nord=k, bkpt=np.array(case['bkpt']))
        st4, f4 = s4.fit(x, al * y + be * p, w)
        lin = al * s.coeff + be * s2.coeff
        ls = max(float(np.abs(lin).max()), abs(al) * cs, 1e-300)
        out.expect(st4 == 0 and float(np.abs(s4.coeff - lin).max()) <= max(1e-8, 1e3 * 1.1e-16 * cond ** 2) * max(ls, abs(al) * cs + abs(be) * float(np.abs(s2.coeff).max())),
                   'linear', 'fit(a*y1+b*y2) != a*fit(y1)+b*fit(y2): dev %.3g scale %.3g' % (float(np.abs(s4.coeff - lin).max()), ls))
        out.nontrivial = (len(case['bkpt']) - 1) >= 4
        out.info.update(order=k, intervals=len(case['bkpt']) - 1, npts=x.size, cond=float(sv[0] / sv[-1]))

    def run_long(self, case, out):
        B = self.B
        k, nx = case['nord'], case['nx']
        g = np.random.default_rng(case['seed'])
        x = np.sort(g.uniform(0, 10, nx))
        x[0], x[-1] = 0.0, 10.0
        w = g.uniform(0.5, 2.0, nx)
        w[g.uniform(size=nx) < 0.02] = 0.0
        w[0] = w[-1] = 1.0
        y = np.sin(x * 1.3) + g.normal(0, 0.1, nx)
        with warnings.catch_warnings():
            warnings.simplefilter('ignore')
            s = B.bspline(x, nord=k, bkpt=np.linspace(0, 10, case['nint'] + 1))
            st, yfit = s.fit(x, y, w)
        out.count('long_fits')
        out.count('long_fits_points_times_order_over_2**21', nx * k > 2 ** 21)
        if not out.expect(st == 0, 'status', 'well-supported fit of %d points returned status %r' % (nx, st)):
            return
        A = BR.basis_matrix(np.asarray(s.breakpoints, dtype='f8'), k, x, extrapolate=True)
        c, rank, sv = BR.wls(A, y, w)
        dev = float(np.abs(yfit - A @ c).max())
        out.expect(dev <= 1e-7, 'optimum', 'fitted values of %d points differ from the dense weighted LS solution by %.3g' % (nx, dev))
        cdev = float(np.abs(s.coeff - c).max())
        out.expect(cdev <= 1e-6 * max(float(np.abs(c).max()), 1.0), 'optimum', 'coefficients differ from dense LS by %.3g' % cdev)
        # the last points count as much as the first: a polynomial below the order, altered at the zero-weight points only
        p = np.polyval(g.normal(size=k), (x - 5) / 5)
        p2 = p.copy()
        p2[w == 0] += 1e3
        s2 = B.bspline(x, nord=k, bkpt=np.linspace(0, 10, case['nint'] + 1))
        st2, pf = s2.fit(x, p2, w)
        out.expect(st2 == 0 and float(np.abs(pf - p).max()) <= 1e-7 * max(float(np.abs(p).max()), 1.0), 'polynomial',
                   'polynomial of degree %d not reproduced on %d points' % (k - 1, nx))
        out.nontrivial = True
        out.info.update(order=k, npts=nx)

    def run_cholesky_spd(self, case, out):
        B = self.B
        l = np.array(case['l'])
        n, bw = case['n'], case['bw']
        b = np.array(case['b'])
        keep = l.copy()
        r = B.cholesky_band(l.copy(), mininf=0.0)
        if not out.expect(isinstance(r, tuple) and len(r) == 2 and isinstance(r[0], int) and r[0] == -1, 'cholesky',
                          'SPD matrix not factorised: first item %r' % (r[0] if isinstance(r, tuple) else r,)):
            return
        L = r[1]
        out.expect(L.shape == l.shape, 'cholesky', 'factor lost its padding: shape %s' % (L.shape,))
        A = band_to_dense(keep, n)
        Ld = lower_to_dense(L, n)
        na = float(np.abs(A).max())
        e1 = float(np.abs(Ld @ Ld.T - A).max())
        out.expect(e1 <= 1e-10 * na * n, 'cholesky', 'L L^T != A: %.3g (|A| %.3g)' % (e1, na))
        bb = np.concatenate([b, np.zeros(bw)])
        # the right-hand side as a caller may hold it: native float64, big-endian float64 (FITS), float32
        rdt = ['f8', 'f8', '>f8', 'f4'][(n + bw) % 4]
        bb = bb.astype(rdt)
        bkeep = bb.copy()
        b = bb[:n].astype('f8')
        x = B.cholesky_solve(L, bb)
        out.count('solve_rhs_' + rdt.replace('>', 'be_'))
        out.expect(x.shape == bb.shape, 'cholesky', 'solution not padded like b')
        out.expect(bool(np.array_equal(bb, bkeep)), 'cholesky', 'cholesky_solve modified its right-hand side')
        x = np.asarray(x, dtype='f8')
        cond = float(np.linalg.cond(A))
        e2 = float(np.abs(A @ x[:n] - b).max())
        rtol = 1e-10 if rdt != 'f4' else 3e-6 * max(cond, 1.0)
        out.expect(e2 <= rtol * max(na * float(np.abs(x[:n]).max()), float(np.abs(b).max())) * n, 'cholesky',
                   'A x != b: residual %.3g (cond %.3g, right-hand side %s)' % (e2, cond, rdt))
        out.count('spd_factorisations')
        out.nontrivial = n >= 4 and bw >= 2

    def run_cholesky_bad(self, case, out):
        B = self.B
        l = np.array(case['l'])
        fb0 = self.rec.raises.get('scipy.cholesky_banded:LinAlgError', 0)
        with warnings.catch_warnings():
            warnings.simplefilter('ignore')
            with np.errstate(all='ignore'):
                r = B.cholesky_band(l.copy(), mininf=0.0)
        out.count('cholesky_fallback_entered', self.rec.raises.get('scipy.cholesky_banded:LinAlgError', 0) - fb0)
        ok = isinstance(r, tuple) and len(r) == 2 and not (isinstance(r[0], (int, np.integer)) and not isinstance(r[0], bool) and r[0] == -1)
        out.expect(ok, 'signal', 'non-PD / non-finite matrix (%s) reported as success: %r' % (case['mode'], r[0] if isinstance(r, tuple) else r))
        if case['mode'] in ('nan', 'inf', 'nan_offdiag'):
            out.count('nonfinite_signalled')
        else:
            out.count('nonpd_signalled')
        out.nontrivial = True

    def run_nonfinite(self, case, out):
        B = self.B
        x = np.array(case['x'], dtype='f8')
        y = np.array(case['y'], dtype='f8')
        w = np.array(case['w'], dtype='f8')
        k = case['nord']
        mode = case['mode']
        finx = np.isfinite(x)
        calls0 = self.rec.calls.get('bspline.maskpoints', 0)
        out.info.update(mode=mode, where=case['where'], order=k, nbkpts=case['nbkpts'], npts=int(x.size))
        out.count('nonfinite_fits_' + ('abscissae' if mode.startswith('x_') else 'negative_weights' if mode == 'w_negative' else 'weights'))
        with warnings.catch_warnings():
            warnings.simplefilter('ignore')
            with np.errstate(all='ignore'):
                s = B.bspline(x[finx], nord=k, nbkpts=case['nbkpts'])
                t = B.bspline(x[finx], nord=k, nbkpts=case['nbkpts'])        # the same problem with blank data
                nb0 = len(s.breakpoints)
                steps = 0
                prev_good = int(s.mask.sum())
                while True:
                    # an exception leaving fit() here is the violation itself (harness clause 'exception')
                    st, yfit = s.fit(x, y, w)
                    steps += 1
                    st_t, yf_t = t.fit(x, np.zeros_like(y), w)
                    out.expect(st_t == st and bool(np.array_equal(t.mask, s.mask)), 'status',
                               'step %d: the same abscissae, weights and knots with blank data (y = 0) give status %r and %d masked '
                               'breakpoints, with the data status %r and %d masked' % (steps, st_t, int((~t.mask).sum()), st, int((~s.mask).sum())),
                               mode=mode)
                    out.expect(bool(np.all(np.isfinite(np.asarray(t.coeff, dtype='f8')))), 'finite', 'non-finite coefficients (blank-data twin)')
                    isint = isinstance(st, (int, np.integer)) and not isinstance(st, bool)
                    if not out.expect(isint, 'status', 'status is %r (%s), not an integer code' % (st, type(st).__name__)):
                        return
                    out.expect(np.shape(yfit) == y.shape, 'status', 'yfit shape %s' % (np.shape(yfit),))
                    out.expect(bool(np.all(np.isfinite(np.asarray(s.coeff, dtype='f8')))), 'finite',
                               'non-finite coefficients after status %d (%s)' % (st, mode))
                    good = int(s.mask.sum())
                    if st == -1:
                        out.count('nonfinite_status_minus1')
                        out.expect(good < prev_good, 'mask', 'status -1 but no further breakpoint was masked (%d -> %d)' % (prev_good, good))
                    elif st == -2:
                        out.count('nonfinite_status_minus2')
                    elif st == 0 and mode != 'w_negative':
                        # success is believable only from an implementation that set the unusable points aside: then the curve is
                        # the weighted LS optimum over the points with finite abscissa and weight, on the unmasked breakpoints
                        out.count('nonfinite_status0')
                        ws = np.where(np.isfinite(w) & finx, w, 0.0)
                        gb = np.asarray(s.breakpoints, dtype='f8')[s.mask]
                        okfit = bool(np.all(np.isfinite(np.asarray(yfit, dtype='f8')[finx]))) and not np.isinf(w).any() and len(gb) >= 2 * k
                        if okfit:
                            A = BR.basis_matrix(gb, k, x[finx], extrapolate=True)
                            cref, rank, sv = BR.wls(A, y[finx], ws[finx])
                            chi_ref = float(np.sum(ws[finx] * (y[finx] - A @ cref) ** 2))
                            chi = float(np.sum(ws[finx] * (y[finx] - yfit[finx]) ** 2))
                            okfit = chi <= chi_ref + 1e-7 * (float(np.sum(ws[finx] * y[finx] ** 2)) + 1e-300)
                        out.expect(okfit, 'signal', 'status 0 (success) from a fit whose normal equations are not finite (%s), and the '
                                   'curve is not the optimum over the usable points either' % mode)
                    elif st == 0:
                        out.count('negative_weights_status0')
                        out.expect(bool(np.all(np.isfinite(yfit))), 'finite', 'status 0 with non-finite fitted values')
                        out.expect(good == prev_good, 'mask', 'status 0 (success) although this call dropped breakpoints (%d -> %d)' % (prev_good, good))
                    prev_good = good
                    if st in (0, -2) or steps > nb0 + 2:
                        break
                out.expect(steps <= nb0 + 2, 'terminates', 'refitting after status -1 did not terminate in %d steps' % steps)
        out.count('maskpoints_entered', self.rec.calls.get('bspline.maskpoints', 0) - calls0)
        out.nontrivial = True
        out.info.update(steps=steps, final=int(st))

    def run_illposed(self, case, out):
        B = self.B
        x = np.array(case['x'])
        y = np.array(case['y'])
        w = np.array(case['w'])
        k = case['nord']
        calls0 = self.rec.calls.get('bspline.maskpoints', 0)
        fb0 = self.rec.raises.get('scipy.cholesky_banded:LinAlgError', 0)
        with warnings.catch_warnings():
            warnings.simplefilter('ignore')
            with np.errstate(all='ignore'):
                s = B.bspline(x, nord=k, nbkpts=case['nbkpts'])
                if case['mode'] == 'caller_masked':
                    idx = np.arange(k, len(s.mask))
                    if case['mask_from'] == 'start':
                        idx = idx[::-1]
                    elif case['mask_from'] == 'random':
                        idx = np.random.default_rng(case['mask_seed']).permutation(idx)
                    s.mask[idx[case['keep_good']:]] = False
                    out.count('fits_with_breakpoints_masked_by_the_caller')
                    out.count('fits_with_fewer_good_breakpoints_than_the_order', case['keep_good'] < k)
                # the verdict on a problem (status, masked breakpoints) depends on the abscissae, weights and knots alone: the same
                # problem with blank data (y = 0: a dead fibre, a sky-subtracted blank) and with y in other units goes the same way
                twins = []
                for ytwin in (np.zeros_like(y), y * 1e-17):
                    t = B.bspline(x, nord=k, nbkpts=case['nbkpts'])
                    t.mask = s.mask.copy()
                    twins.append((t, ytwin))
                nb0 = len(s.breakpoints)
                steps = 0
                prev_good = int(s.mask.sum())
                while True:
                    fb_call0 = self.rec.raises.get('scipy.cholesky_banded:LinAlgError', 0)
                    st, yfit = s.fit(x, y, w)
                    fallback_in_call = self.rec.raises.get('scipy.cholesky_banded:LinAlgError', 0) > fb_call0
                    steps += 1
                    for t, ytwin in twins:
                        st_t, yf_t = t.fit(x, ytwin, w)
                        out.expect(st_t == st and bool(np.array_equal(t.mask, s.mask)), 'status',
                                   'step %d: the same abscissae, weights and knots with %s give status %r and %d masked breakpoints, '
                                   'with the data status %r and %d masked' % (steps, 'blank data (y = 0)' if not ytwin.any() else 'y in other units',
                                                                             st_t, int((~t.mask).sum()), st, int((~s.mask).sum())), mode=case['mode'])
                        out.expect(bool(np.all(np.isfinite(np.asarray(t.coeff, dtype='f8')))), 'finite', 'non-finite coefficients (twin problem)')
                    out.count('status_compared_with_blank_data_twin')
                    isint = isinstance(st, (int, np.integer)) and not isinstance(st, bool)
                    if not out.expect(isint, 'status', 'status is %r (%s), not an integer code' % (st, type(st).__name__)):
                        return
                    out.expect(yfit.shape == y.shape, 'status', 'yfit shape %s' % (yfit.shape,))
                    out.expect(bool(np.all(np.isfinite(np.asarray(s.coeff, dtype='f8')))), 'finite', 'non-finite coefficients after status %d' % st)
                    good = int(s.mask.sum())
                    if st == -1:
                        out.count('status_minus1')
                        out.expect(good < prev_good, 'mask', 'status -1 but no further breakpoint was masked (%d -> %d)' % (prev_good, good))
                    elif st == -2:
                        out.count('status_minus2')
                    elif st == 0:
                        out.count('illposed_status0')
                        # status 0 = success: the returned curve must be the weighted LS optimum over the spline space of the
                        # breakpoints that are still unmasked (chi-square compared with an independent dense minimum-norm solve)
                        gb = np.asarray(s.breakpoints, dtype='f8')[s.mask]
                        if len(gb) >= 2 * k and np.all(np.isfinite(yfit)):
                            A = BR.basis_matrix(gb, k, x, extrapolate=True)
                            cref, rank, sv = BR.wls(A, y, w)
                            chi_ref = float(np.sum(w * (y - A @ cref) ** 2))
                            chi = float(np.sum(w * (y - yfit) ** 2))
                            scale = float(np.sum(w * y * y)) + 1e-300
                            cond = float(sv[0] / sv[-1]) if sv[-1] > 0 else np.inf
                            singular = rank < A.shape[1] or cond ** 2 * 1.1e-16 > 1e-6
                            # open finding F-B7: the problem is numerically singular but LAPACK's Cholesky goes through (no
                            # LinAlgError, min_influence not triggered) -> status 0 with huge finite coefficients.  Anything
                            # else (well-conditioned problem, or the fallback was entered and still status 0) is a violation.
                            # ... and only if the documented min_influence guard (diagonal of A^T W A <= 1e-10 * sum(w) / ncoeff)
                            # was legitimately silent: a fit that slips past a guard that should have fired is a regression
                            diagN = np.sum(w[:, None] * A * A, axis=0)
                            guard_silent = bool(diagN.min() > 1.0e-10 * float(w.sum()) / A.shape[1])
                            clause = 'singular-status0' if (singular and not fallback_in_call and guard_silent) else 'optimum-after-masking'
                            out.expect(chi <= chi_ref + 1e-7 * scale, clause,
                                       'status 0 after %d step(s) but chi-square %.6g is not the minimum %.6g attainable with the '
                                       'unmasked breakpoints (rank %d of %d, cond %.3g, Cholesky fallback entered: %s)'
                                       % (steps, chi, chi_ref, rank, A.shape[1], cond, fallback_in_call),
                                       mode=case['mode'], masked=int((~s.mask).sum()))
                            out.count('status0_optimality_checked')
                        out.expect(good == prev_good, 'mask', 'status 0 (success) although this call dropped breakpoints (%d -> %d); '
                                   'dropped breakpoints are documented as status -1' % (prev_good, good))
                        out.expect(bool(np.all(np.isfinite(yfit))), 'finite', 'status 0 with non-finite fitted values')
                    prev_good = good
                    if st in (0, -2) or steps > nb0 + 2:
                        break
                out.expect(steps <= nb0 + 2, 'terminates', 'refitting after status -1 did not terminate in %d steps' % steps)
        entered = self.rec.calls.get('bspline.maskpoints', 0) - calls0
        out.count('maskpoints_entered', entered)
        out.count('cholesky_fallback_entered', self.rec.raises.get('scipy.cholesky_banded:LinAlgError', 0) - fb0)
        out.nontrivial = entered > 0
        out.info.update(mode=case['mode'], steps=steps, final=int(st))

    def classify(self, case, out):
        if out.fails and all(f['clause'] == 'singular-status0' for f in out.fails):
            return 'singular_but_cholesky_succeeds'
        return None

    def summarise(self, case):
        c = dict(case)
        for k in ('x', 'y', 'w', 'b'):
            if k in c:
                c[k] = c[k][:6] + ['... %d values' % len(case[k])]
        if 'l' in c:
            c['l'] = [r[:6] for r in c['l'][:3]]
        return c


CHECK = C09()
