"""C05 - spheregroup partitions points into friends-of-friends components.

Events : spheregroup(ra, dec, linklength, chunksize) -> (ingroup, multgroup, firstgroup, nextgroup); the ``chunks``
         instance built inside the call is captured at ``chunks.assign`` (geometry for the guided generators and
         the reach counters only), ``chunks.chunkfriendsoffriends`` calls are counted.
Oracle : union-find over all pairs with long-double chord separations (vlib/refs/sphere_match.py), both readings of
         the ambiguity band; the four arrays are checked against it and against each other.
"""
import math
import random
import warnings
import itertools
import numpy as np
from vlib.harness import Check, np_rng
from vlib.refs import sphere_match as R

DECS = [0.0, 30.0, -30.0, 60.0, -60.0, 80.0, -80.0, 85.0, -85.0, 88.0, -88.0, 89.5, -89.5]
DECLIM = 90.0 - 1e-9
RA_TOP = math.nextafter(360.0, 0.0)
# exact boundary values of RA: the ends of [0, 360) and the values that become exactly 360.0 when one of the six trial
# offsets (0, 60, ..., 300) of chunks.rarange is added.  RA = 360.0 itself is outside the property's domain; class ra360
# only checks that the call says the same as for RA 0.0 (which the unchanged code does).
BOUNDARY_RA = [0.0, RA_TOP, 60.0, 120.0, 180.0, 240.0, 300.0]
BOUNDARY_CLASSES = ('allsky', 'polar', 'rings')          # already all around the sky: moving one point changes no grid size
# dense class: number of positions in ONE chunk, around implementation-typical block sizes
WIDE_LENGTHS = [90.0, 120.0, 170.0, 179.9, 180.0, 180.1, 200.0, 270.0, 359.0, 360.0]
DENSE_SIZES = [2 ** k + d for k in (8, 9, 10) for d in (-1, 0, 1)] + [640, 768, 900, 1100]
DENSE_QUICK = [640, 1025, 513, 257, 768, 511]
# where the crowded field lies: 'field' = mid-latitude, away from RA 0 (the cases above); 'polar' = a cap around a pole, so
# that linked pairs differ by tens of degrees (up to 180) in RA; 'seam' = centred on RA 0/360, so that linked pairs have RAs
# near 0 and near 360.  Quick tier: the six fields above, then these (size, kind); thorough: every size in every kind.
DENSE_QUICK_KINDS = [(1040, 'polar'), (1030, 'seam'), (530, 'polar'), (270, 'seam')]
DENSE_ROUNDS = ['field', 'field', 'field', 'field', 'polar', 'seam', 'polar']
POLAR_SHAPES = ['over', 'ring', 'over', 'hub']      # what is planted at the pole of a 'polar' field, in turn
WIDE_DRA = 15.0                      # deg: a linked pair whose RAs differ by more than this (shorter way round) is "wide"
# positions exactly at a pole, and the nearest things to it
POLE_RAS = [0.0, 180.0, RA_TOP, 90.0]
NEAR_POLE = [math.nextafter(90.0, 0.0), 90.0 - 1e-13, 90.0 - 1e-11, 90.0 - 1e-9]
CS_FACT = [0.5, 2.0, 4.0, 4.0, 4.5, 8.0, 32.0, 64.0]
LAT_N = 300 + 2300 + 12650           # placements of 2, 3, 4 points on 25 sites
LAT_SITES = ('corner', 'seam', 'dec89')
LAT_TOTAL = LAT_N * len(LAT_SITES)
LAT_STRIDE = 7919                    # coprime with LAT_TOTAL: i -> i*stride mod total is a bijection


def clipdec(d):
    return float(min(max(d, -DECLIM), DECLIM))


def log_uniform(rng, lo, hi):
    return float(10.0 ** rng.uniform(math.log10(lo), math.log10(hi)))


def cluster(nr, n, ra0, dec0, spread):
    c0 = max(math.cos(math.radians(dec0)), 0.01)
    ra = np.mod(ra0 + nr.uniform(-spread, spread, n) / c0, 360.0)
    dec = np.clip(dec0 + nr.uniform(-spread, spread, n), -DECLIM, DECLIM)
    ra[ra >= 360.0] = 0.0
    return ra.tolist(), dec.tolist()


def perm_from_seed(seed, n):
    p = list(range(n))
    if seed is not None:
        random.Random(seed).shuffle(p)
    return np.array(p, dtype=int)


def first_order(labels):
    """renumber labels 0,1,2,.. in order of first appearance"""
    m = {}
    out = []
    for x in labels:
        if x not in m:
            m[x] = len(m)
        out.append(m[x])
    return out


def eff_cs(L, cs):
    if cs is None:
        return max(4.0 * L, 0.1)
    return max(cs, 4.0 * L)


# Canaries: tiny fixed inputs with known groupings; the harness runs C05.canary() (all of them, in CANARY_ORDER) right after
# setup and after every case in the same process (clause `history`): a call must not leave anything behind (numpy error
# state, warning filters, module state) that changes the answer of the next one.  They walk the warning-prone paths: link
# circles containing a pole, all points at one RA (0/0 in chunks.rarange), a group across RA 0/360, all points at one Dec.
CANARIES = {
    'polar': ({'ra': [0.0, 180.0, 90.0, 200.0], 'dec': [89.9, 89.92, 89.95, 88.0], 'L': 0.2}, [0, 0, 0, 1]),
    'equal_ra': ({'ra': [10.0, 10.0, 10.0, 10.0], 'dec': [20.0, 20.03, 20.2, 20.23], 'L': 0.05}, [0, 0, 1, 1]),
    'seam': ({'ra': [359.99, 0.01, 0.3, 0.03], 'dec': [-5.0, -5.0, -4.9, -5.0], 'L': 0.025}, [0, 0, 1, 0]),
    'equal_dec': ({'ra': [40.0, 40.03, 40.5, 40.05], 'dec': [60.0, 60.0, 60.0, 60.0], 'L': 0.02}, [0, 0, 1, 0]),
    'equal_ra_zero': ({'ra': [0.0, 0.0, 0.0], 'dec': [-30.0, -30.2, -30.01], 'L': 0.02}, [0, 1, 0]),
}
CANARY_ORDER = ('polar', 'equal_ra', 'seam', 'equal_dec', 'equal_ra_zero', 'polar', 'equal_ra')


class C05(Check):
    ID = 'C05'
    CASE_CPU_S = 30.0
    MIN_NONTRIVIAL = 20
    REQUIRED_REACH = {'spheregroup.chunks.friendsoffriends': 0.9, 'spheregroup.spheregroup': 0.9}
    RULE = ('point lists of 2-120 positions, linking length 1e-3 - 20 deg, chunk size default, 4-64 x L, or smaller than 4L '
            '(enforced minimum): chains of 5-60 points with links of 0.5-0.999 L and gaps of 1.001-1.5 L (also L(1 +- 10^-u)) '
            'along RA, Dec and diagonals across many chunks, the RA seam and the pole; rings around a pole; clumps placed '
            '1e-9..1e-3 cell widths from chunk edges / corners / the seam cell / the polar-cap boundary of the recorded '
            'chunk geometry; polar caps; all-sky scatter; coincident points; two-point inputs; grids clamped at +-90; and '
            'the bounded-exhaustive lattice sub-space (all placements of 2-4 points on a 5x5 lattice of spacing 0.6 L centred '
            'on a chunk corner, on RA 0/360 and at Dec 89; complete in the thorough tier).  Every case is re-run in a '
            'permuted order and with another chunk size.  Class degenerate: all points at exactly one RA (meridian strips, '
            'two points at one RA, RA 0, strips into the polar cap) or at exactly one Dec.  After every case the harness '
            'runs the canary sequence (fixed polar, equal-RA, seam, equal-Dec inputs, polar before equal-RA) in the same '
            'process, so that what a call leaves behind is seen by the next call.  Class flavours: whole-degree lattice '
            'positions handed over as int64/int32/int16/unsigned, float32, big-endian, strided, reversed-view and read-only '
            'arrays (RA only, Dec only, both), judged by the same oracle (band max(1e-5 rel, 3e-3 deg) when numpy converts the '
            'argument to radians in float32), arguments compared bytewise afterwards.  Class dense: 255-1100 positions (2**k, 2**k +- 1) '
            'of scrambled filaments in ONE chunk, at mid-latitude, around a pole (links with RA differences up to 180 deg: chain over the pole, '
            'open ring around it, pole with spokes) and centred on RA 0/360 (due E-W pairs across the seam), 270-1100 positions there.  '
            'Class poles: positions exactly at Dec +90.0 / -90.0 (alone with the others far away, several entries at the pole with '
            'equal and different RAs, the pole as the only link between spokes at all RAs, inside rings, in a chain straight over '
            'it, inside a scattered cap, both poles in one list, two-point lists) and the doubles next to 90.  Exact boundary RAs (0.0, nextafter(360,0), 60..300) injected into 30 % of the '
            'all-around classes; class ra360: a seam member written as 360.0 must be grouped as when written 0.0.  Non-trivial: >= 1 group of >= 2 members whose members have '
            'different home chunks; distinct by hash of the materialised case.')
    ASSUMPTIONS = ['separations from a long-double chord formula; a case is undecided only if linking or not linking the '
                   'pairs within max(1e-9 relative, 1e-11 deg) of L changes the partition',
                   'the mutual consistency of the four arrays is checked on every case, decided or not',
                   'the order in which next[] visits the members of a group is not prescribed by the property']
    REQUIRED_COUNTERS = ('exact_tie_links_decided', 'zero_link_duplicate_links', 'anchored_tie_links', 'tie_cases', 'wide_link_cases', 'wide_link_ge_180_cases', 'wide_link_over_16_in_one_chunk', 'dense_cases', 'dense_cases_above_512_in_one_chunk', 'boundary_ra_points', 'ra360_calls', 'flavour_calls', 'flavour_int_calls', 'flavour_single_precision_calls', 'flavour_layout_calls',
                         'flavour_args_unchanged_checks', 'flavour_multi_member_groups', 'canary_sequences', 'canary_inputs_judged', 'equal_ra_cases', 'equal_dec_cases', 'groups_spanning_chunks', 'undecided_cases', 'band_pairs_harmless', 'replicated_points', 'chunk_fof_calls', 'perm_variants',
                         'chunksize_variants', 'enforced_minimum_chunksize', 'near_threshold_links', 'seam_cases',
                         'polar_slice_cases', 'multi_member_groups', 'lattice_cases',
                         'dense_polar_cases', 'dense_seam_cases', 'dense_polar_above_1024_in_one_chunk', 'dense_seam_above_1024_in_one_chunk',
                         'dense_wide_dra_bridge_links', 'dense_seam_crossing_bridge_links', 'dense_wide_dra_bridges_in_chunk_above_1024',
                         'dense_seam_crossing_bridges_in_chunk_above_1024',
                         'pole_cases', 'pole_points_north', 'pole_points_south', 'both_poles_cases', 'pole_duplicate_cases',
                         'pole_point_in_multi_member_group', 'pole_point_alone', 'pole_point_linked_to_other_positions',
                         'pole_point_is_only_link_cases', 'next_to_pole_points')

    # ------------------------------------------------------------------ wiring
    def setup(self):
        import pydl.pydlutils.spheregroup as SG
        self.SG = SG
        self._chunk = None
        self._nfof = 0
        for f in (SG.chunks.__init__, SG.chunks.assign, SG.chunks.getbounds, SG.chunks.friendsoffriends,
                  SG.groups.__init__, SG.spheregroup):
            self.reach.add(f)
        self._orig_assign = orig = SG.chunks.assign
        self._orig_cfof = orig2 = SG.chunks.chunkfriendsoffriends
        chk = self

        def assign(inst, ra, dec, marginSize):
            if chk.brd.in_protocol:              # (calls the buffer-reuse monitor makes on its own are not the case's geometry)
                return orig(inst, ra, dec, marginSize)
            chk._chunk = inst
            return orig(inst, ra, dec, marginSize)

        def chunkfriendsoffriends(inst, ra, dec, chunkList, linkSep):
            if chk.brd.in_protocol:
                return orig2(inst, ra, dec, chunkList, linkSep)
            chk._nfof += 1
            return orig2(inst, ra, dec, chunkList, linkSep)
        SG.chunks.assign = assign
        SG.chunks.chunkfriendsoffriends = chunkfriendsoffriends
        self.brd.per_case = 1
        self.brd.attach(self.rec, SG, 'spheregroup', every=12, partial=False)               # buffer-reuse differential (vlib/brd.py)
        self.rec.wrap(SG, 'spheregroup')
        self._combos = None
        self._latgeo = {}
        # known answers of the canaries, verified once against the independent reference (harness error if they disagree)
        self._canary = {}
        for name, (inp, labels) in CANARIES.items():
            a = (np.array(inp['ra'], dtype='d'), np.array(inp['dec'], dtype='d'))
            sure, maybe, nband, S = R.fof(a[0], a[1], inp['L'])
            if list(sure) != list(labels) or list(maybe) != list(labels):
                raise RuntimeError('canary %s: stored answer disagrees with the reference' % name)
            self._canary[name] = a

    def canary(self):
        """Fixed, ordinary call sequence (polar group first, then equal-RA, seam, equal-Dec, RA 0, polar, equal-RA).
        No np.errstate() here - it would put back what the calls leave behind."""
        res = []
        for name in CANARY_ORDER:
            a = self._canary[name]
            try:
                with warnings.catch_warnings():
                    warnings.simplefilter('ignore')
                    r = self.SG.spheregroup(a[0].copy(), a[1].copy(), CANARIES[name][0]['L'])
                res.append(('ok', name) + tuple(tuple(np.asarray(x).astype(int).tolist()) for x in r))
            except Exception as e:
                res.append(('raised', type(e).__name__, '%s: %s' % (name, str(e)[:80])))
        return res

    def teardown(self):
        self.rec.unwrap_all()
        self.SG.chunks.assign = self._orig_assign
        self.SG.chunks.chunkfriendsoffriends = self._orig_cfof

    def budget(self, tier):
        q = tier == 'quick'
        return {
            'chains': 300 if q else 10000,
            'serpentine': 120 if q else 4000,
            'rings': 100 if q else 3000,
            'corners': 300 if q else 10000,
            'polar': 80 if q else 2500,
            'allsky': 40 if q else 1500,
            'clusters': 160 if q else 6000,
            'coincident': 80 if q else 2500,
            'two_points': 160 if q else 5000,
            'clamped': 300 if q else 5000,
            'lattice': 900 if q else LAT_TOTAL,
            'canary_inputs': len(CANARIES),
            'flavours': 400 if q else 8000,
            'dense': len(DENSE_QUICK) + len(DENSE_QUICK_KINDS) if q else len(DENSE_ROUNDS) * len(DENSE_SIZES),
            'poles': 320 if q else 8000,
            'ra360': 60 if q else 1500,
            'wide_links': 160 if q else 3000,
            'ties': 160 if q else 4000,
            'degenerate': 240 if q else 5000,
        }

    # ------------------------------------------------------------------ helpers
    def _learn(self, ra, dec, cs):
        try:
            c = self.SG.chunks(np.array(ra, dtype='d'), np.array(dec, dtype='d'), cs)
        except Exception:
            return None
        return R.Geo(c, ra, dec)

    def _pick_cs(self, rng, L, floor=0.0):
        if rng.random() < 0.4:
            return None
        cs = L * rng.choice(CS_FACT)
        if floor and cs < floor:
            cs = floor
        return cs

    def _variants(self, rng, case, floor=0.0):
        L = case['L']
        cs2 = L * log_uniform(rng, 4.0, 64.0) if rng.random() < 0.8 else L * rng.uniform(0.3, 4.0)
        if floor:
            cs2 = max(cs2, floor)
        case['variants'] = [{'p': rng.getrandbits(32), 'cs': case['cs']}, {'p': None, 'cs': cs2}]
        return case

    def _shuffle(self, rng, ra, dec):
        idx = list(range(len(ra)))
        rng.shuffle(idx)
        return [ra[j] for j in idx], [dec[j] for j in idx]

    def _link_factor(self, rng, gap_p=0.12, in_band=True):
        """separation of consecutive chain members in units of L"""
        r = rng.random()
        if r < 0.003 and in_band:
            return 1.0 + rng.choice([-1.0, 1.0]) * 1e-10        # inside the ambiguity band on purpose
        if r < gap_p:
            return rng.choice([rng.uniform(1.001, 1.5), 1.0 + 10.0 ** -rng.choice([2, 3, 4, 5, 6, 7])])
        if r < 0.3:
            return 1.0 - 10.0 ** -rng.choice([2, 3, 4, 5, 6, 7])
        return rng.uniform(0.5, 0.999)

    # ------------------------------------------------------------------ gen
    def gen(self, cls, rng, i):
        nr = np_rng(rng)
        case = getattr(self, 'gen_' + cls)(rng, nr, i)
        if case is None:
            return None
        case['cls'] = cls
        if 'variants' not in case:
            self._variants(rng, case, case.get('cs_floor', 0.0))
        if cls in BOUNDARY_CLASSES and rng.random() < 0.3:         # drawn last: everything above is unchanged by this
            case['ra'][rng.randrange(len(case['ra']))] = rng.choice(BOUNDARY_RA)
        return case

    def gen_dense(self, rng, nr, i):
        """a crowded field in ONE chunk (explicit chunk size much larger than the field): n = 2**k, 2**k +- 1 (k = 8..10) and
        a few sizes in between, made of short filaments (links 0.5-0.999 L) and singletons, listed in scrambled order.
        Kinds: 'field' (mid-latitude, away from RA 0), 'polar' (a cap around a pole: links with RA differences up to 180 deg),
        'seam' (centred on RA 0/360)"""
        if self.tier == 'quick':
            n, kind = (DENSE_QUICK[i], 'field') if i < len(DENSE_QUICK) else DENSE_QUICK_KINDS[(i - len(DENSE_QUICK)) % len(DENSE_QUICK_KINDS)]
            turn = (i - len(DENSE_QUICK)) // 2
        else:
            n, kind = DENSE_SIZES[i % len(DENSE_SIZES)], DENSE_ROUNDS[(i // len(DENSE_SIZES)) % len(DENSE_ROUNDS)]
            turn = len(DENSE_SIZES) - 1 - i % len(DENSE_SIZES) + i // len(DENSE_SIZES)      # the largest size first
        if kind != 'field':
            return self._gen_dense_at(rng, n, kind, POLAR_SHAPES[turn % len(POLAR_SHAPES)])
        rad = 0.4
        L = 0.35 * rad / math.sqrt(n)
        dec0 = rng.choice([-20.0, 0.0, 35.0])
        ra0 = rng.choice([77.7, 140.3, 210.0, 301.0])       # away from RA 0: a seam through the field would split the chunk
        c0 = math.cos(math.radians(dec0))
        ra, dec = [], []
        while len(ra) < n:
            rr, th = rad * math.sqrt(rng.random()), rng.uniform(0, 2 * math.pi)
            a, d = R.wrap360(ra0 + rr * math.cos(th) / c0), dec0 + rr * math.sin(th)
            ra.append(a)
            dec.append(d)
            if rng.random() < 0.75:
                b = rng.uniform(0, 360)
                for _ in range(rng.randint(1, 7)):
                    if len(ra) >= n:
                        break
                    b += rng.uniform(-40, 40)
                    a, d = R.destination(a, d, b, self._link_factor(rng, 0.05, in_band=False) * L)
                    ra.append(a)
                    dec.append(d)
        ra, dec = self._shuffle(rng, ra, dec)
        case = {'L': L, 'cs': rng.choice([10.0, 30.0]), 'ra': ra, 'dec': dec}
        case['variants'] = [{'p': rng.getrandbits(32), 'cs': case['cs']}] if n <= 700 else []
        return case

    def _gen_dense_at(self, rng, n, kind, shape):
        """crowded field of n positions in ONE chunk around a pole ('polar') or centred on RA 0/360 ('seam'): the same sparse
        filaments as the mid-latitude field (about 0.1 neighbours within L per position, so that a link is rarely doubled by
        another chain) plus a planted structure whose links are the wide ones: a chain straight over the pole, an open ring
        around it, the pole itself with spokes; due E-W pairs across RA 0.  Planted links are close to L (0.8-0.999999 L)."""
        rad = 0.4
        L = 0.35 * rad / math.sqrt(n)
        ra, dec = [], []

        def near_f():
            return rng.choice([1.0 - 10.0 ** -rng.choice([2, 3, 4, 5, 6]), rng.uniform(0.8, 0.999),
                               self._link_factor(rng, 0.0, in_band=False)])
        if kind == 'polar':
            sgn = rng.choice([1.0, -1.0])
            ra0 = rng.choice([0.0, 10.0, rng.uniform(0, 360), rng.uniform(0, 360)])
            if shape == 'over':
                # two positions on opposite meridians, the pole between them: RAs 180 deg apart (or 140-220), separation f L
                f0 = rng.choice([1.0 - 10.0 ** -rng.choice([2, 3, 4, 5, 6]), rng.uniform(0.8, 0.999)])
                u = rng.uniform(0.15, 0.85)
                twist = rng.choice([0.0, 0.0, rng.uniform(-40.0, 40.0)])
                ra += [ra0, R.wrap360(ra0 + 180.0 + twist)]
                dec += [sgn * (90.0 - u * f0 * L), sgn * (90.0 - (1.0 - u) * f0 * L)]
                inner = max(u, 1.0 - u) * f0 * L
            elif shape == 'ring':
                # open regular polygon around the pole: consecutive members f L apart, RAs 60-120 deg apart
                k = rng.randint(3, 6)
                inner = math.degrees(math.asin(min(1.0, math.sin(math.radians(near_f() * L / 2.0)) / math.sin(math.pi / k))))
                skip = rng.randrange(k) if rng.random() < 0.7 else None
                for q in range(k):
                    if q != skip:
                        ra.append(R.wrap360(ra0 + 360.0 * q / k))
                        dec.append(sgn * (90.0 - inner))
            else:
                # the pole itself with spokes
                k = rng.randint(2, 5)
                ra.append(rng.choice(POLE_RAS))
                dec.append(sgn * 90.0)
                inner = 0.0
                for q in range(k):
                    f = near_f()
                    inner = max(inner, f * L)
                    ra.append(R.wrap360(ra0 + 360.0 * q / k + rng.uniform(-10.0, 10.0)))
                    dec.append(sgn * (90.0 - f * L))
            # circles of latitude around it, more than L from each other and from the centre piece, each carrying due E-W
            # pairs (same Dec: separation exactly f L, f close to 1) with gaps of more than L between the pairs: the RA
            # difference of a pair is ~30 deg on the first circle, ~18 deg on the second, ...
            pd = inner
            for _ in range(3):
                pd += rng.uniform(1.05, 1.25) * L
                d = sgn * (90.0 - pd)
                gap = R.ew_width(1.3 * L, d)
                a = rng.uniform(0, 360)
                end = a + 360.0
                while True:
                    f = rng.choice([1.0 - 10.0 ** -rng.choice([2, 3, 4, 5, 6]), 1.0 - 10.0 ** -rng.choice([2, 3, 4, 5, 6]), near_f()])
                    w = R.ew_width(f * L, d)
                    if a + w + gap > end:
                        break
                    ra += [R.wrap360(a), R.wrap360(a + w)]
                    dec += [d, d]
                    a += w + gap * rng.uniform(1.0, 1.5)
            clear = pd + 1.5 * L

            def seed_point():
                while True:
                    q = rad * math.sqrt(rng.random())
                    if q > clear:
                        return rng.uniform(0, 360), sgn * (90.0 - q)
        else:
            dec0 = rng.choice([-20.0, 0.0, 35.0])
            c0 = math.cos(math.radians(dec0))
            m = rng.randint(8, 20)
            for q in range(m):
                # due E-W pairs across RA 0 (same Dec: separation exactly f L), well apart from each other in Dec
                d = dec0 + (-0.9 + 1.8 * (q + rng.uniform(0.2, 0.8)) / m) * rad
                w = R.ew_width(near_f() * L, d)
                u = rng.uniform(0.05, 0.95)
                ra += [R.wrap360(-u * w), R.wrap360((1.0 - u) * w)]
                dec += [d, d]

            def seed_point():
                rr, th = rad * math.sqrt(rng.random()), rng.uniform(0, 2 * math.pi)
                x = rr * math.cos(th) / c0
                if rng.random() < 0.1:
                    x = rng.uniform(-0.5, 0.5) * L / c0            # on the seam itself
                return R.wrap360(x), dec0 + rr * math.sin(th)
        while len(ra) < n:
            a, d = seed_point()
            ra.append(a)
            dec.append(d)
            if rng.random() < 0.75:
                b = rng.uniform(0, 360)
                for _ in range(rng.randint(1, 7)):
                    if len(ra) >= n:
                        break
                    b += rng.uniform(-40, 40)
                    a, d = R.destination(a, d, b, self._link_factor(rng, 0.05, in_band=False) * L)
                    ra.append(a)
                    dec.append(d)
        ra, dec = self._shuffle(rng, ra, dec)
        # seam: with chunks of 30 deg the grid is clamped at a pole, no RA offset is accepted and RA 0 cuts the field in two
        cs = rng.choice([10.0, 30.0]) if kind == 'polar' else 10.0
        case = {'L': L, 'cs': cs, 'ra': ra, 'dec': dec, 'kind': kind, 'planted': shape if kind == 'polar' else 'ew_pairs'}
        case['variants'] = [{'p': rng.getrandbits(32), 'cs': case['cs']}] if n <= 700 else []
        return case

    def gen_poles(self, rng, nr, i):
        """positions EXACTLY at a pole (Dec = +90.0 / -90.0, whatever the RA written next to it): alone with the other list
        members far away, several entries at the pole (equal and different RAs), the pole as the only link between
        neighbours at all RAs (spokes), inside a ring, as a member of a chain straight over it, inside a scattered cap, both
        poles in one list; also the doubles next to 90 (nextafter, 90 - 1e-13 ...).  Chunk size default, 4-64 L, or large."""
        kind = rng.choice(['alone', 'alone', 'duplicated', 'duplicated', 'hub', 'hub', 'hub', 'ring', 'chain_over',
                           'chain_over', 'cap', 'cap', 'both', 'minimal'])
        sgn = rng.choice([1.0, -1.0])
        L = log_uniform(rng, 1e-3, 5.0)
        ra, dec = [], []

        def pole(s):
            ra.append(rng.choice(POLE_RAS + [rng.uniform(0, 360), rng.uniform(0, 360)]))
            dec.append(s * 90.0)

        def others_far(s, k):
            """k positions that have nothing to do with the pole: some Dec range away, with a few friends among themselves"""
            where = rng.choice(['same_cap', 'mid', 'anywhere'])
            for _ in range(k):
                if where == 'same_cap':
                    d = s * (90.0 - min(L * rng.uniform(1.5, 40.0), 120.0))
                elif where == 'mid':
                    d = s * rng.uniform(-30.0, 60.0)
                else:
                    d = math.degrees(math.asin(rng.uniform(-1, 1)))
                if abs(d) > DECLIM or abs(s * 90.0 - d) <= 1.5 * L:
                    continue
                ra.append(rng.uniform(0, 360))
                dec.append(d)
                if rng.random() < 0.3:
                    a2, d2 = R.destination(ra[-1], d, rng.uniform(0, 360), self._link_factor(rng, 0.2) * L)
                    if abs(d2) < DECLIM:
                        ra.append(a2)
                        dec.append(d2)

        def spokes(s, k, ra0, even=True):
            for q in range(k):
                a = ra0 + 360.0 * q / k if even else rng.uniform(0, 360)
                ra.append(R.wrap360(a))
                dec.append(s * (90.0 - self._link_factor(rng, 0.2) * L))

        if kind == 'minimal':
            pole(sgn)
            ra.append(rng.choice(POLE_RAS + [rng.uniform(0, 360)]))
            dec.append(sgn * clipdec(90.0 - rng.choice([self._link_factor(rng, 0.3) * L, L * rng.uniform(0, 3), 0.0, 40.0])))
            if dec[-1] == dec[0]:
                dec[-1] = sgn * 90.0 if rng.random() < 0.5 else sgn * rng.choice(NEAR_POLE)
        elif kind == 'alone':
            pole(sgn)
            others_far(sgn, rng.randint(1, 15))
        elif kind == 'duplicated':
            for _ in range(rng.randint(2, 5)):
                pole(sgn)
            if rng.random() < 0.5:
                ra.append(ra[0])                       # a bit-identical entry as well
                dec.append(dec[0])
            if rng.random() < 0.5:
                spokes(sgn, rng.randint(1, 6), rng.uniform(0, 360), even=rng.random() < 0.5)
            others_far(sgn, rng.randint(0, 8))
        elif kind == 'hub':
            # the pole is the only thing that joins its neighbours: 2-5 spokes are further apart than L from each other
            pole(sgn)
            if rng.random() < 0.25:
                pole(sgn)
            k = rng.randint(2, 9)
            spokes(sgn, k, rng.uniform(0, 360), even=rng.random() < 0.7)
            for j in range(len(ra)):                    # chains radiating outwards from some spokes
                if abs(dec[j]) < 90.0 and rng.random() < 0.4:
                    a, d = ra[j], dec[j]
                    for _ in range(rng.randint(1, 4)):
                        d = d - sgn * self._link_factor(rng, 0.1) * L
                        if abs(d) >= DECLIM:
                            break
                        ra.append(a)
                        dec.append(d)
            others_far(sgn, rng.randint(0, 6))
        elif kind == 'ring':
            pole(sgn)
            for _ in range(rng.choice([1, 1, 2])):
                k = rng.randint(4, 40)
                sx = math.sin(math.radians(min(self._link_factor(rng, 0.2) * L, 170.0) / 2.0)) / math.sin(math.pi / k)
                if sx >= 0.98:
                    continue
                r = math.degrees(math.asin(sx))
                drop = set(rng.sample(range(k), rng.choice([0, 0, 1, 2])))
                ra0 = rng.uniform(0, 360)
                for q in range(k):
                    if q not in drop:
                        ra.append(R.wrap360(ra0 + 360.0 * q / k))
                        dec.append(sgn * clipdec(90.0 - r))
            others_far(sgn, rng.randint(0, 4))
        elif kind == 'chain_over':
            # up one meridian, through the pole itself, down the opposite meridian (or one at an angle to it)
            ra0 = rng.choice([0.0, rng.uniform(0, 360), RA_TOP])
            turn = rng.choice([180.0, 180.0, 90.0, rng.uniform(0, 360)])
            pole(sgn)
            for side, a in ((0, ra0), (1, R.wrap360(ra0 + turn))):
                pd = 0.0
                for _ in range(rng.randint(0 if side else 1, 12)):
                    pd += self._link_factor(rng) * L
                    if pd > 85.0:
                        break
                    ra.append(a)
                    dec.append(sgn * (90.0 - pd))
            others_far(sgn, rng.randint(0, 4))
        elif kind == 'cap':
            n = rng.randint(5, 60)
            radius = L * rng.uniform(1.0, 8.0)
            for _ in range(n):
                ra.append(rng.uniform(0, 360))
                dec.append(sgn * clipdec(90.0 - min(60.0, radius * math.sqrt(rng.random()))))
            for _ in range(rng.randint(1, 3)):
                pole(sgn)
            for _ in range(rng.randint(0, 3)):
                ra.append(rng.uniform(0, 360))
                dec.append(sgn * rng.choice(NEAR_POLE))
        else:
            # both poles in one list: far apart (never linked below 180 deg), or everything one group from 180 deg on
            L = rng.choice([L, L, rng.choice([90.0, 179.9, 180.0, 180.1, 200.0]), rng.uniform(30.0, 179.0)])
            for s in (1.0, -1.0):
                for _ in range(rng.randint(1, 2)):
                    pole(s)
                if L < 30.0:
                    spokes(s, rng.randint(0, 4), rng.uniform(0, 360))
            others_far(sgn, rng.randint(0, 10))
        if rng.random() < 0.25 and kind not in ('minimal',):
            ra.append(rng.uniform(0, 360))
            dec.append(sgn * rng.choice(NEAR_POLE))
        if len(ra) < 2:
            ra.append(rng.uniform(0, 360))
            dec.append(sgn * clipdec(90.0 - L * rng.uniform(2.0, 30.0)))
        ra, dec = self._shuffle(rng, ra, dec)
        # a small chunk size with a large Dec extent means thousands of slices: keep the grid below ~200 slices
        extent = max(dec) - min(dec)
        floor = max(0.05, extent / 150.0)
        r = rng.random()
        if r < 0.4:
            cs = None if max(4.0 * L, 0.1) >= floor else floor
        elif r < 0.8:
            cs = max(L * rng.choice(CS_FACT), floor)
        else:
            cs = max(4.0 * L, rng.uniform(1.0, 30.0), floor)        # large chunks: the grid is clamped at the pole anyway
        return {'L': L, 'cs': cs, 'ra': ra, 'dec': dec, 'kind': kind, 'cs_floor': floor}

    def gen_ties(self, rng, nr, i):
        """separation == linking length exactly, where that is not a matter of rounding: linking length 0 with repeated
        (bit-identical) entries - the exact-duplicate search; pairs anchored on the equator, (a,0)-(a,+-L), the chain
        (a,-L),(a,0),(a,L), (0,0)-(L,0), none of them joined through shorter links.  The property says "do not exceed":
        a tie links.  (Anchored ties are asserted only when haversine, Vincenty and chord all reproduce L bit for bit.)"""
        kind = rng.choice(['zero_link', 'zero_link', 'anchored', 'anchored', 'dups'])
        ra, dec = [], []
        if kind in ('zero_link', 'dups'):
            L = 0.0 if kind == 'zero_link' else log_uniform(rng, 1e-4, 1.0)
            dec0 = clipdec(rng.choice(DECS) + rng.uniform(-0.4, 0.4))
            ra0 = rng.choice([rng.uniform(0, 360), 0.0, RA_TOP])
            nb = rng.randint(1, 25)
            bra, bdec = cluster(nr, nb, ra0, dec0, rng.choice([1e-6, 1e-3, 0.05, 2.0]))
            if rng.random() < 0.3:
                bra[0], bdec[0] = rng.choice([0.0, RA_TOP, 180.0]), rng.choice([0.0, bdec[0]])
            for j in range(nb):
                for _ in range(rng.choice([1, 1, 2, 2, 3, 4])):
                    ra.append(bra[j])
                    dec.append(bdec[j])
                if rng.random() < 0.2:                   # a near twin that is NOT a duplicate (1e-9 .. 1e-5 deg away)
                    ra.append(bra[j])
                    dec.append(clipdec(bdec[j] + rng.choice([-1.0, 1.0]) * 10.0 ** rng.uniform(-9, -5)))
            if len(ra) < 2:
                ra.append(ra[0])
                dec.append(dec[0])
        else:
            L = rng.choice([0.25 * rng.randint(1, 120), 0.1 * rng.randint(1, 99), rng.choice([1.0, 2.0, 3.0, 5.0, 10.0, 30.0]),
                            round(rng.uniform(0.01, 30.0), rng.randint(1, 6))])
            for _ in range(rng.randint(1, 3)):
                a = rng.choice([0.0, 200.0, 37.5, rng.uniform(0, 360), RA_TOP])
                shape = rng.choice(['up', 'down', 'chain', 'equator'])
                if shape == 'equator':
                    pts = [(0.0, 0.0), (L, 0.0)]
                elif shape == 'chain':
                    pts = [(a, -L), (a, 0.0), (a, L)]
                else:
                    pts = [(a, 0.0), (a, L if shape == 'up' else -L)]
                for q in pts:
                    ra.append(q[0])
                    dec.append(q[1])
            # bystanders well away from everything (no shorter links), sometimes exactly on the equator / a meridian
            for _ in range(rng.randint(0, 5)):
                ra.append(rng.uniform(0, 360))
                dec.append(rng.choice([0.0, rng.uniform(-80, 80)]))
        ra, dec = self._shuffle(rng, ra, dec)
        # duplicates: the field is up to 4 deg wide whatever L is, so the chunk size must not scale with a tiny L
        cs = self._pick_cs(rng, L) if kind == 'anchored' else rng.choice([None, None, 0.5, 3.0])
        case = {'L': L, 'cs': cs, 'ra': ra, 'dec': dec, 'kind': kind}
        cs2 = max(L * rng.uniform(4.0, 30.0), rng.uniform(0.2, 5.0))
        case['variants'] = [{'p': rng.getrandbits(32), 'cs': cs}, {'p': None, 'cs': cs2}]
        return case

    def gen_wide_links(self, rng, nr, i):
        """the large end of the linking length: 30-360 deg (90, 120, 170, 179.9, 180, 180.1, 200, 270, 359, 360 and random)
        with more than 16 positions per chunk: two opposite clumps, a clump and far outliers, all-sky scatter, exactly and
        nearly antipodal pairs.  Separations never exceed 180 deg, so from 180.1 deg on everything is one group."""
        L = rng.choice(WIDE_LENGTHS) if rng.random() < 0.7 else rng.uniform(30.0, 200.0)
        kind = rng.choice(['opposite', 'opposite', 'clump_far', 'allsky', 'allsky'])
        if kind == 'allsky':
            n = rng.randint(17, 60)
            ra = nr.uniform(0, 360, n).tolist()
            dec = np.clip(np.degrees(np.arcsin(nr.uniform(-1, 1, n))), -DECLIM, DECLIM).tolist()
        else:
            a0, d0 = rng.uniform(0, 360), rng.uniform(-70, 70)
            ra, dec = cluster(nr, rng.randint(9, 25), a0, d0, rng.choice([0.5, 2.0, 5.0]))
            if kind == 'opposite':
                t = rng.choice([0.0, 0.0, rng.uniform(0, 30)])
                a1, d1 = R.destination(a0, d0, rng.uniform(0, 360), 180.0 - t)
                r2, c2 = cluster(nr, rng.randint(9, 25), a1, clipdec(d1), rng.choice([0.5, 2.0, 5.0]))
                ra += r2
                dec += c2
            else:
                for _ in range(rng.randint(1, 8)):
                    a1, d1 = R.destination(a0, d0, rng.uniform(0, 360), rng.choice([L * rng.uniform(0.9, 1.1), rng.uniform(60, 180)]) % 180.0001)
                    ra.append(a1)
                    dec.append(clipdec(d1))
        for _ in range(rng.randint(0, 2)):
            j = rng.randrange(len(ra))
            a1, d1 = R.destination(ra[j], dec[j], rng.uniform(0, 360), 180.0 - rng.choice([0.0, 10.0 ** -rng.randint(1, 8)]))
            ra.append(a1)
            dec.append(clipdec(d1))
        ra, dec = self._shuffle(rng, ra, dec)
        cs = None if rng.random() < 0.6 else L * rng.choice([4.0, 4.0, 8.0, 1.0])
        case = {'L': L, 'cs': cs, 'ra': ra, 'dec': dec, 'kind': kind}
        case['variants'] = [{'p': rng.getrandbits(32), 'cs': cs}, {'p': None, 'cs': L * rng.uniform(4.0, 10.0)}]
        return case

    def gen_ra360(self, rng, nr, i):
        """a catalogue for which no RA offset is accepted (all-sky scatter, or a cap reaching the pole) with a chain across
        RA 0/360 one member of which sits exactly on the seam: grouped with that member written as RA 0.0 (judged by the
        oracle) and again as RA 360.0 (must give the very same four arrays)"""
        kind = rng.choice(['allsky', 'allsky', 'cap', 'seam_cluster'])
        L = log_uniform(rng, 0.2, 2.0)
        if kind == 'allsky':
            n = rng.randint(30, 90)
            ra = nr.uniform(0, 360, n).tolist()
            dec = np.clip(np.degrees(np.arcsin(nr.uniform(-1, 1, n))), -DECLIM, DECLIM).tolist()
            dec0 = rng.uniform(-50, 50)
        elif kind == 'cap':
            sgn = rng.choice([1.0, -1.0])
            n = rng.randint(10, 40)
            ra = [rng.uniform(0, 360) for _ in range(n)]
            dec = [sgn * clipdec(90.0 - L * rng.uniform(0, 8)) for _ in range(n)]
            dec0 = sgn * (90.0 - L * rng.uniform(2, 6))
        else:
            dec0 = rng.uniform(-60, 60)
            ra, dec = cluster(nr, rng.randint(4, 20), 0.0, dec0, L * 4)
        # the chain through the seam at Dec dec0: ..., -2, -1, 0, +1, +2 steps of f*L due E-W, the middle one exactly on RA 0
        w = R.ew_width(rng.uniform(0.6, 0.95) * L, dec0) or 1.0
        idx = []
        for q in range(-rng.randint(1, 3), rng.randint(1, 3) + 1):
            if q == 0:
                idx.append(len(ra))
            ra.append(R.wrap360(q * w) if q else 0.0)
            dec.append(dec0)
        order = list(range(len(ra)))
        rng.shuffle(order)
        pos = {old: new for new, old in enumerate(order)}
        return {'L': L, 'cs': self._pick_cs(rng, L, 1.0), 'ra': [ra[j] for j in order], 'dec': [dec[j] for j in order],
                'ra360': [pos[j] for j in idx], 'kind': kind, 'cs_floor': 1.0}

    def gen_chains(self, rng, nr, i):
        L = log_uniform(rng, 1e-3, 4.0)
        n = rng.randint(5, 60)
        kind = rng.choice(['ra', 'ra', 'dec', 'diag', 'pole'])
        dec0 = clipdec(rng.choice(DECS) + rng.uniform(-0.4, 0.4))
        ra0 = rng.choice([rng.uniform(0, 360), 360.0 - L * rng.uniform(0, 10) / max(math.cos(math.radians(dec0)), 0.02)])
        ra0 = R.wrap360(ra0)
        ra, dec = [ra0], [dec0]
        if kind == 'ra':
            for _ in range(n - 1):
                f = self._link_factor(rng)
                w = R.ew_width(f * L, dec[-1])
                if w is None or w > 120:
                    break
                ra.append(R.wrap360(ra[-1] + w))
                dec.append(dec0)                       # same Dec: exact E-W separations f*L
        elif kind == 'dec':
            sgn = -1.0 if dec0 > 0 else 1.0
            for _ in range(n - 1):
                d = dec[-1] + sgn * self._link_factor(rng) * L
                if abs(d) >= DECLIM:
                    break
                ra.append(ra0)
                dec.append(d)
        elif kind == 'diag':
            b = rng.choice([45.0, 135.0, 225.0, 315.0, rng.uniform(0, 360)])
            for _ in range(n - 1):
                a, d = R.destination(ra[-1], dec[-1], b, self._link_factor(rng) * L)
                if abs(d) >= DECLIM:
                    break
                ra.append(a)
                dec.append(d)
        else:
            # straight over a pole: up one meridian, down the opposite one
            sgn = rng.choice([1.0, -1.0])
            pd = (n // 2) * 0.8 * L * rng.uniform(0.5, 1.0)        # polar distance of the start
            pd = min(pd, 80.0)
            ra, dec = [ra0], [sgn * clipdec(90.0 - pd)]
            pos = -pd                                              # signed polar distance along the great circle
            for _ in range(n - 1):
                pos += self._link_factor(rng) * L
                if abs(pos) > 85.0:
                    break
                ra.append(ra0 if pos < 0 else R.wrap360(ra0 + 180.0))
                dec.append(sgn * clipdec(90.0 - abs(pos)))
        # a few bystanders near the chain
        for _ in range(rng.randint(0, 6)):
            j = rng.randrange(len(ra))
            a, d = R.destination(ra[j], dec[j], rng.uniform(0, 360), L * rng.uniform(0.3, 3.0))
            if abs(d) < DECLIM:
                ra.append(a)
                dec.append(d)
        if len(ra) < 2:
            ra.append(R.wrap360(ra[0] + 1.0))
            dec.append(dec[0])
        ra, dec = self._shuffle(rng, ra, dec)
        return {'L': L, 'cs': self._pick_cs(rng, L), 'ra': ra, 'dec': dec, 'kind': kind}

    def gen_serpentine(self, rng, nr, i):
        """rows along RA joined alternately at their right and left ends (or all at one end: a comb): the provisional
        groups of different chunks are merged late and through long chains of equivalences (find-root / path-compression
        loops of chunks.friendsoffriends with depth >= 2)"""
        L = log_uniform(rng, 1e-2, 1.5)
        dec0 = clipdec(rng.choice([0.0, 20.0, -35.0, 50.0, 65.0, 75.0, -70.0]) + rng.uniform(-1, 1))
        ra0 = rng.choice([rng.uniform(0, 360), 359.0, 0.5])
        rows = rng.randint(3, 6)
        nlink = rng.randint(5, 16)
        comb = rng.random() < 0.35
        rowgap = rng.uniform(1.15, 3.0)                      # rows are not linked to each other directly
        f = rng.uniform(0.7, 0.97)
        up = rng.choice([1.0, -1.0])
        ra, dec = [], []
        for r in range(rows):
            d = clipdec(dec0 + up * r * rowgap * L)
            w = R.ew_width(f * L, d)
            if w is None or w * nlink > 100.0:
                break
            xs = [R.wrap360(ra0 + q * w) for q in range(nlink + 1)]
            ra += xs
            dec += [d] * len(xs)
            if r + 1 < rows:
                # connector to the next row: at the right end, or alternating ends; optionally broken (then the rows split)
                end = xs[-1] if (comb or r % 2 == 0) else xs[0]
                d2 = clipdec(dec0 + up * (r + 1) * rowgap * L)
                nst = int(math.ceil(rowgap / 0.9))
                broken = rng.random() < 0.15
                for q in range(1, nst):
                    if broken and q == 1:
                        continue
                    ra.append(end)
                    dec.append(d + (d2 - d) * q / nst)
        if len(ra) < 2:
            return None
        ra, dec = self._shuffle(rng, ra, dec)
        return {'L': L, 'cs': rng.choice([None, None, 4.0 * L, 5.0 * L, 8.0 * L]), 'ra': ra, 'dec': dec, 'comb': comb}

    def gen_canary_inputs(self, rng, nr, i):
        """the canary inputs as ordinary cases, so that their answers are also judged by the oracle on the tree under test"""
        name = sorted(CANARIES)[i % len(CANARIES)]
        inp = CANARIES[name][0]
        return {'L': inp['L'], 'cs': None, 'ra': list(inp['ra']), 'dec': list(inp['dec']), 'canary': name, 'cs_floor': 0.05}

    def gen_flavours(self, rng, nr, i):
        """whole-degree lattice positions handed over as int64/int32/int16/unsigned, float32, big-endian, strided,
        reversed-view and read-only arrays (RA only, Dec only, both); each flavoured call is judged against the reference for
        the same positions, after the plain float64 call"""
        dec0 = rng.choice([-60, -40, -20, -3, 0, 10, 30, 50, 60, 70])
        ra0 = rng.choice([0, 5, 100, 250, 350, 355, 357])
        gx, gy = rng.randint(3, 10), rng.randint(1, 6)
        sites = [((ra0 + a) % 360, dec0 + b) for a in range(gx) for b in range(gy)]
        n = rng.randint(2, min(30, len(sites)))
        pts = [rng.choice(sites) for _ in range(n)] if rng.random() < 0.3 else rng.sample(sites, n)
        L = rng.choice([0.4, 1.05, 1.05, 1.2, 1.45, 2.1, 2.3])
        names = sorted(R.FLAVOURS)
        neg = min(p[1] for p in pts) < 0
        flav = []
        for _ in range(3):
            f = rng.choice(names)
            which = rng.choice(['ra', 'ra', 'dec', 'both', 'both'])
            spec = {}
            if which in ('ra', 'both'):
                spec['ra'] = f
            if which in ('dec', 'both'):
                spec['dec'] = 'i4' if (f in R.UNSIGNED and neg) else f
            if rng.random() < 0.25:
                spec[rng.choice(['ra', 'dec'])] = rng.choice(['i8', 'f4', 'i2', 'strided', '>f8'])
            flav.append(spec)
        cs = None if rng.random() < 0.6 else L * rng.choice([2.0, 4.0, 5.0, 8.0])
        return {'L': L, 'cs': cs, 'ra': [p[0] for p in pts], 'dec': [p[1] for p in pts], 'flavours': flav, 'variants': []}

    def gen_degenerate(self, rng, nr, i):
        """all points at exactly one RA (meridian strip, two points at one RA, RA 0 and the largest double below 360,
        strips running into the polar cap) or at exactly one Dec; order shuffled"""
        kind = rng.choice(['meridian', 'meridian', 'meridian', 'two_at_one_ra', 'cap_strip', 'parallel', 'parallel'])
        L = log_uniform(rng, 1e-3, 3.0)
        ra0 = rng.choice([0.0, 0.0, RA_TOP, 10.0, 180.0, rng.uniform(0, 360), rng.uniform(0, 360)])
        dec0 = clipdec(rng.choice(DECS) + rng.uniform(-0.4, 0.4))
        n = 2 if kind == 'two_at_one_ra' else rng.randint(2, 50)
        if kind == 'parallel':
            ra, a = [], ra0
            for _ in range(n):
                ra.append(R.wrap360(a))
                w = R.ew_width(self._link_factor(rng, 0.2) * L, dec0)
                a += w if (w is not None and w <= 20.0) else 20.0
            dec = [dec0] * n
        else:
            if kind == 'cap_strip':
                pole = rng.choice([1.0, -1.0])
                d, sgn = pole * (90.0 - 10.0 ** rng.uniform(-9, -1)), -pole
            else:
                d, sgn = dec0, (1.0 if dec0 < 0 else -1.0)
            dec = []
            for _ in range(n):
                dec.append(clipdec(d))
                d += sgn * self._link_factor(rng, 0.2) * L
            ra = [ra0] * n
            if rng.random() < 0.3:
                j = rng.randrange(n)
                dec.append(dec[j])              # a coincident point on the strip
                ra.append(ra0)
        ra, dec = self._shuffle(rng, ra, dec)
        return {'L': L, 'cs': self._pick_cs(rng, L), 'ra': ra, 'dec': dec, 'kind': kind}

    def gen_rings(self, rng, nr, i):
        sgn = rng.choice([1.0, -1.0])
        L = log_uniform(rng, 1e-2, 5.0)
        ra, dec = [], []
        ra0 = rng.uniform(0, 360)
        for _ in range(rng.choice([1, 1, 2])):
            k = rng.randint(4, 40)
            f = self._link_factor(rng, 0.2)
            s = math.sin(math.radians(f * L / 2.0)) / math.sin(math.pi / k)
            if s >= 0.98:
                continue
            r = math.degrees(math.asin(s))
            drop = set(rng.sample(range(k), rng.choice([0, 0, 1, 2])))
            for q in range(k):
                if q in drop:
                    continue
                ra.append(R.wrap360(ra0 + 360.0 * q / k))
                dec.append(sgn * clipdec(90.0 - r))
        if rng.random() < 0.5:
            ra.append(rng.uniform(0, 360))
            dec.append(sgn * (90.0 - 10.0 ** rng.uniform(-9, -3)))
        for _ in range(rng.randint(0, 5)):
            ra.append(rng.uniform(0, 360))
            dec.append(sgn * clipdec(90.0 - L * rng.uniform(0, 4)))
        while len(ra) < 2:
            ra.append(rng.uniform(0, 360))
            dec.append(sgn * clipdec(90.0 - L * rng.uniform(0, 4)))
        ra, dec = self._shuffle(rng, ra, dec)
        return {'L': L, 'cs': self._pick_cs(rng, L), 'ra': ra, 'dec': dec}

    def gen_polar(self, rng, nr, i):
        sgn = rng.choice([1.0, -1.0])
        L = log_uniform(rng, 0.02, 3.0)
        n = rng.randint(10, 80)
        rad = L * rng.uniform(2.0, 10.0)
        ra = [rng.uniform(0, 360) for _ in range(n)]
        dec = [sgn * clipdec(90.0 - min(60.0, rad * math.sqrt(rng.random()))) for _ in range(n)]
        return {'L': L, 'cs': self._pick_cs(rng, L), 'ra': ra, 'dec': dec}

    def gen_allsky(self, rng, nr, i):
        L = log_uniform(rng, 0.5, 20.0)
        n = rng.randint(40, 120)
        ra = nr.uniform(0, 360, n)
        ra[ra >= 360.0] = 0.0
        dec = np.clip(np.degrees(np.arcsin(nr.uniform(-1, 1, n))), -DECLIM, DECLIM)
        return {'L': L, 'cs': self._pick_cs(rng, L, 1.0), 'ra': ra.tolist(), 'dec': dec.tolist(), 'cs_floor': 1.0}

    def gen_clusters(self, rng, nr, i):
        L = log_uniform(rng, 1e-3, 10.0)
        n = rng.randint(2, 60)
        dec0 = rng.uniform(-89, 89) if rng.random() < 0.5 else rng.choice(DECS)
        ra0 = rng.choice([rng.uniform(0, 360), 0.0])
        ra, dec = cluster(nr, n, ra0, dec0, L * rng.uniform(0.5, 8.0))
        return {'L': L, 'cs': self._pick_cs(rng, L), 'ra': ra, 'dec': dec}

    def gen_coincident(self, rng, nr, i):
        L = log_uniform(rng, 1e-3, 5.0)
        dec0 = rng.choice(DECS) + rng.uniform(-0.4, 0.4)
        ra0 = rng.choice([rng.uniform(0, 360), 0.0, RA_TOP])
        nb = rng.randint(1, 8)
        bra, bdec = cluster(nr, nb, ra0, dec0, L * rng.uniform(0.3, 5.0))
        if rng.random() < 0.3:
            bra[0] = rng.choice([0.0, RA_TOP])
        ra, dec = [], []
        for _ in range(rng.randint(2, 30)):
            j = rng.randrange(nb)
            ra.append(bra[j])
            dec.append(bdec[j])
        return {'L': L, 'cs': self._pick_cs(rng, L), 'ra': ra, 'dec': dec}

    def gen_two_points(self, rng, nr, i):
        L = log_uniform(rng, 1e-3, 20.0)
        dec0 = clipdec(rng.choice(DECS + [89.9999, -89.9999]) + rng.uniform(-0.4, 0.4))
        ra0 = rng.choice([rng.uniform(0, 360), 0.0, RA_TOP, 359.9999])
        r = rng.random()
        if r < 0.6:
            f = 1.0 + rng.choice([-1.0, 1.0]) * 10.0 ** -rng.choice([1, 2, 3, 4, 5, 6, 7])
        elif r < 0.8:
            f = rng.uniform(0.0, 3.0)
        elif r < 0.9:
            f = 0.0
        else:
            f = rng.uniform(3.0, 2000.0)
        b = rng.choice([0.0, 90.0, 180.0, 270.0, rng.uniform(0, 360)])
        a, d = R.destination(ra0, dec0, b, min(f * L, 179.0))
        d = clipdec(d)
        return {'L': L, 'cs': self._pick_cs(rng, L), 'ra': [ra0, a], 'dec': [dec0, d], 'cs_floor': 0.05}

    def gen_clamped(self, rng, nr, i):
        """grid clamped at +-90 (large chunk size relative to the polar distance): ordinary inputs, F-G2 territory"""
        L = log_uniform(rng, 0.02, 3.0)
        sgn = rng.choice([1.0, 1.0, 1.0, -1.0])
        n = rng.randint(2, 40)
        top = rng.uniform(60.0, 89.9)
        # wide Dec extents matter: the last boundary is decMin + (90-decMin)*nDec/nDec, which only rounds above 90
        # when 90-decMin is large (F-G2)
        bot = rng.uniform(-30.0, 40.0) if rng.random() < 0.7 else top - rng.uniform(0.5, 50.0)
        ra0 = rng.uniform(0, 360)
        w = rng.choice([5.0, 30.0, 180.0])
        ra = [R.wrap360(ra0 + rng.uniform(-w, w)) for _ in range(n)]
        dec = [sgn * bot, sgn * top] + [sgn * rng.uniform(bot, top) for _ in range(n - 2)]
        # friends for some of them
        for _ in range(n // 2):
            j = rng.randrange(n)
            a, d = R.destination(ra[j], dec[j], rng.uniform(0, 360), L * rng.uniform(0.2, 1.6))
            if abs(d) < DECLIM:
                ra.append(a)
                dec.append(d)
        cs = max(4.0 * L, (90.0 - top) / 3.0 * rng.uniform(1.0, 6.0), rng.uniform(1.0, 15.0))
        return {'L': L, 'cs': cs, 'ra': ra, 'dec': dec, 'cs_floor': 0.5}

    def gen_corners(self, rng, nr, i):
        """clumps hugging edges / corners of the recorded chunk geometry"""
        L = log_uniform(rng, 10 ** -2.5, 10 ** 0.6)
        dec0 = clipdec(rng.choice([0.0, 30.0, -45.0, 60.0, 75.0, 80.0, 84.0, 86.0, 88.0, -80.0, -86.0, 89.0]) + rng.uniform(-1, 1))
        cs = rng.choice([None, None, L * 4.0, L * 4.5, L * 8.0])
        ra0 = rng.choice([rng.uniform(0, 360), 0.0])
        ra, dec = cluster(nr, rng.randint(6, 16), ra0, dec0, L * rng.uniform(6.0, 20.0))
        g = self._learn(ra, dec, eff_cs(L, cs))
        made = 0
        if g is not None:
            pops = g.populated_slices()
            for _ in range(rng.randint(4, 14)):
                sl = rng.choice(pops)
                lo, hi = g.decBounds[sl], g.decBounds[sl + 1]
                h = hi - lo
                w = g.width(sl)
                kind = rng.choice(['ra_edge', 'ra_edge', 'dec_edge', 'corner', 'corner', 'seam_cell', 'ew_pair'])
                tiny = 10.0 ** rng.uniform(-9, -3)
                if kind in ('ra_edge', 'corner', 'ew_pair'):
                    if g.nRa[sl] < 2:
                        continue
                    x = g.raBounds[sl][rng.randint(1, g.nRa[sl] - 1)] + rng.choice([-1.0, 1.0]) * tiny * w
                elif kind == 'seam_cell':
                    if not g.all_around(sl):
                        continue
                    x = (rng.choice([-1.0, 1.0]) * tiny * w) % 360.0
                else:
                    x = rng.uniform(g.xMin, g.xMax)
                if kind in ('dec_edge', 'corner'):
                    kb = rng.choice([sl, sl + 1])
                    if abs(g.decBounds[kb]) >= 90.0:
                        continue
                    d = g.decBounds[kb] + rng.choice([-1.0, 1.0]) * 10.0 ** rng.uniform(-9, -3) * h
                else:
                    pw, other = g.poleward(sl)
                    d = pw - math.copysign(10.0 ** rng.uniform(-8, -1) * h, pw - other) if rng.random() < 0.6 else rng.uniform(lo, hi)
                d = clipdec(d)
                a = g.unrot(x)
                if not g.in_box(a, d):
                    continue
                pts = [(a, d)]
                if kind == 'ew_pair':
                    # due E-W partner across the RA edge at L(1 -+ 10^-u): the F-G1 configuration
                    wfull = R.ew_width(L, d)
                    if wfull is None or wfull > 170:
                        continue
                    f = 1.0 + rng.choice([-1.0, -1.0, 1.0]) * 10.0 ** -rng.choice([2, 3, 4, 5, 6, 7])
                    side = -1.0 if x > g.raBounds[sl][1] and rng.random() < 0.5 else 1.0
                    pts.append((g.unrot((x + side * wfull * f) % 360.0), d))
                else:
                    for _ in range(rng.randint(1, 4)):
                        pa, pd = pts[rng.randrange(len(pts))]
                        b = rng.choice([0.0, 45.0, 90.0, 135.0, 180.0, 225.0, 270.0, 315.0, rng.uniform(0, 360)])
                        a2, d2 = R.destination(pa, pd, b, self._link_factor(rng, 0.2) * L)
                        pts.append((a2, d2))
                ok = all(abs(q[1]) < DECLIM and g.in_box(q[0], q[1]) for q in pts)
                if not ok:
                    continue
                for q in pts:
                    ra.append(q[0])
                    dec.append(q[1])
                made += 1
        ra, dec = self._shuffle(rng, ra, dec)
        return {'L': L, 'cs': cs, 'ra': ra, 'dec': dec, 'made': made}

    # ---- bounded-exhaustive lattice ---------------------------------------------------------------
    def _lattice_geometry(self, site):
        """anchors (fix the chunk geometry) and the 25 lattice positions for one site; cached per process"""
        if site in self._latgeo:
            return self._latgeo[site]
        L = 0.1
        if site == 'corner':
            c_ra, c_dec, dra, ddec = 150.0, 35.0, 1.3, 1.0
        elif site == 'seam':
            c_ra, c_dec, dra, ddec = 0.0, 10.0, 1.3, 1.0
        else:
            c_ra, c_dec, dra, ddec = 200.0, 89.0, 15.0, 0.4
        anchors = [(R.wrap360(c_ra - dra), c_dec - ddec), (R.wrap360(c_ra + dra), c_dec - ddec),
                   (R.wrap360(c_ra - dra), c_dec + ddec), (R.wrap360(c_ra + dra), c_dec + ddec)]
        centre = (c_ra, c_dec)
        if site == 'corner':
            g = self._learn([a[0] for a in anchors], [a[1] for a in anchors], eff_cs(L, None))
            if g is not None:
                # chunk corner nearest the nominal centre: a Dec boundary and an RA edge of the slice above it
                j = min(range(1, g.nDec), key=lambda q: abs(g.decBounds[q] - c_dec))
                xs = g.raBounds[j]
                k = min(range(1, len(xs) - 1), key=lambda q: abs(g.unrot(xs[q]) - c_ra))
                centre = (g.unrot(xs[k]), g.decBounds[j])
        step = 0.6 * L
        cc = math.cos(math.radians(centre[1]))
        sites = [(R.wrap360(centre[0] + a * step / cc), centre[1] + b * step) for b in range(-2, 3) for a in range(-2, 3)]
        self._latgeo[site] = (L, anchors, sites, centre)
        return self._latgeo[site]

    def gen_lattice(self, rng, nr, i):
        if self._combos is None:
            self._combos = [c for k in (2, 3, 4) for c in itertools.combinations(range(25), k)]
        idx = (i * LAT_STRIDE) % LAT_TOTAL
        site = LAT_SITES[idx // LAT_N]
        combo = self._combos[idx % LAT_N]
        L, anchors, sites, centre = self._lattice_geometry(site)
        pts = [sites[q] for q in combo] + list(anchors)
        # deterministic interleaving of anchors and lattice points
        rot = idx % len(pts)
        pts = pts[rot:] + pts[:rot]
        case = {'L': L, 'cs': None, 'ra': [p[0] for p in pts], 'dec': [p[1] for p in pts],
                'lattice': {'index': idx, 'site': site, 'placement': list(combo), 'centre': list(centre)}}
        case['variants'] = [{'p': idx * 2654435761 % 2 ** 32, 'cs': None}, {'p': None, 'cs': L * (4.0 + (idx % 7) * 3.0)}]
        return case

    # ------------------------------------------------------------------ run
    def run(self, case, out):
        ra = np.array(case['ra'], dtype='d')
        dec = np.array(case['dec'], dtype='d')
        L = float(case['L'])
        n = ra.size
        with np.errstate(all='ignore'):      # an error state left behind by an earlier call must not reach the reference
            # separations cross-checked (chord vs Vincenty) inside; exact ties / duplicates are decided by the property text
            sure, maybe, nband, S = R.fof(ra, dec, L, exact=R.exact_links(ra, dec, L))
        if R.fof.decided_by_exact:
            out.count('exact_tie_links_decided', R.fof.decided_by_exact)
            if L == 0.0:
                out.count('zero_link_duplicate_links', R.fof.decided_by_exact)
            else:
                out.count('anchored_tie_links', R.fof.decided_by_exact)
        out.count('reference_selfchecks')
        decided = sure == maybe
        if not decided:
            out.undecide(1)
            out.count('undecided_cases')
        elif nband:
            out.count('band_pairs_harmless')        # pairs in the band, but both readings give the same partition
        Sf = S.astype('d')
        iu = np.triu_indices(n, 1)
        out.count('near_threshold_links', int((np.abs(Sf[iu] - L) < 1e-3 * L).sum()))
        sizes = np.bincount(np.array(sure))
        out.count('multi_member_groups', int((sizes >= 2).sum()))
        if case.get('cls') == 'lattice':
            out.count('lattice_cases')
        if case.get('cls') == 'canary_inputs':
            out.count('canary_inputs_judged')
        if np.all(ra == ra[0]):
            out.count('equal_ra_cases')
        if np.all(dec == dec[0]):
            out.count('equal_dec_cases')
        runs = [{'p': None, 'cs': case['cs']}] + list(case.get('variants', []))
        span = 0
        for vi, v in enumerate(runs):
            p = perm_from_seed(v['p'], n)
            self._chunk = None
            self._nfof = 0
            res = self.SG.spheregroup(ra[p], dec[p], L, chunksize=v['cs'])
            tag = 'run%d(cs=%r,perm=%s)' % (vi, v['cs'], v['p'] is not None)
            out.count('chunk_fof_calls', self._nfof)
            if v['cs'] is not None and v['cs'] < 4.0 * L:
                out.count('enforced_minimum_chunksize')
            if vi == 0:
                span = self._geometry_counters(out, ra, dec, sure)
            else:
                if v['p'] is not None:
                    out.count('perm_variants')
                if v['cs'] != case['cs']:
                    out.count('chunksize_variants')
            with np.errstate(all='ignore'):
                self._judge(out, res, p, n, sure if decided else None, tag, case, Sf, L)
        if case.get('flavours'):
            self._run_flavours(case, out, S, Sf, L)
        if case.get('ra360'):
            # outside the stated domain (RA in [0, 360)): only "says the same as for RA 0.0", as the unchanged code does
            ra_b = ra.copy()
            ra_b[case['ra360']] = 360.0
            r0 = self.SG.spheregroup(ra.copy(), dec.copy(), L, chunksize=case['cs'])
            r1 = self.SG.spheregroup(ra_b, dec.copy(), L, chunksize=case['cs'])
            out.count('ra360_calls')
            same = all(np.array_equal(np.asarray(x), np.asarray(y)) for x, y in zip(r0, r1))
            out.expect(same, 'ra360-same-as-0', 'positions %s written as RA 360.0 instead of 0.0 are grouped differently (cs=%r)'
                       % (case['ra360'], case['cs']), ingroup_ra0=r0[0], ingroup_ra360=r1[0])
        if case.get('cls') == 'ties':
            out.count('tie_cases')
        if case.get('cls') == 'wide_links':
            out.count('wide_link_cases')
            if L >= 180.0:
                out.count('wide_link_ge_180_cases')
            c = self._chunk
            if c is not None and max((len(cell) for row in c.chunkList for cell in row), default=0) > 16:
                out.count('wide_link_over_16_in_one_chunk')
        if case.get('cls') == 'dense':
            c = self._chunk
            pop = max((len(cell) for row in c.chunkList for cell in row), default=0) if c is not None else 0
            out.count('dense_cases')
            out.info['dense_max_chunk_population'] = pop
            if pop > 512:
                out.count('dense_cases_above_512_in_one_chunk')
            kind = case.get('kind', 'field')
            if kind in ('polar', 'seam'):
                out.count('dense_%s_cases' % kind)
                if pop > 1024:
                    out.count('dense_%s_above_1024_in_one_chunk' % kind)
                with np.errstate(all='ignore'):
                    wide, wide_br, cross, cross_br = self._wide_links(ra, Sf, L, sure)
                out.count('dense_wide_dra_links', wide)
                out.count('dense_wide_dra_bridge_links', wide_br)
                out.count('dense_seam_crossing_links', cross)
                out.count('dense_seam_crossing_bridge_links', cross_br)
                if pop > 1024:
                    out.count('dense_wide_dra_bridges_in_chunk_above_1024', wide_br)
                    out.count('dense_seam_crossing_bridges_in_chunk_above_1024', cross_br)
                out.info.update({'wide_dra_bridge_links': wide_br, 'seam_crossing_bridge_links': cross_br})
        atpole = np.abs(dec) == 90.0
        if atpole.any():
            with np.errstate(all='ignore'):
                self._pole_counters(out, dec, atpole, Sf, L, sure, sizes)
        out.count('next_to_pole_points', int(((np.abs(dec) > 90.0 - 1e-8) & ~atpole).sum()))
        out.count('boundary_ra_points', int(np.isin(ra, BOUNDARY_RA).sum()))
        out.nontrivial = span >= 1
        out.info.update({'n': n, 'groups': int(len(sizes)), 'largest_group': int(sizes.max()), 'band_pairs': nband,
                         'decided': bool(decided), 'groups_spanning_chunks': span})

    def _run_flavours(self, case, out, S, Sf, L):
        """the same positions handed over in other dtypes / memory layouts; judged by the same oracle (single-precision
        band when numpy converts the argument to radians in float32); argument buffers compared bytewise afterwards"""
        n = len(case['ra'])
        ident = np.arange(n)
        for spec in case['flavours']:
            args, owners, prec = {}, {}, 'double'
            for a in ('ra', 'dec'):
                f = spec.get(a, 'f8')
                args[a], owners[a] = R.make_arg(case[a], f)
                if R.FLAVOURS[f] == 'single':
                    prec = 'single'
            before = {a: owners[a].tobytes() for a in owners}
            tag = 'flavour %s (cs=%r)' % (spec, case['cs'])
            res = self.SG.spheregroup(args['ra'], args['dec'], L, chunksize=case['cs'])
            out.count('flavour_calls')
            fl = set(spec.values())
            if fl & {'i8', 'i4', 'i2', 'u4', 'u2', '>i4', 'strided_i8'}:
                out.count('flavour_int_calls')
            if prec == 'single':
                out.count('flavour_single_precision_calls')
            if fl & {'strided', 'reversed', 'readonly', '>f8', '>f4', '>i4', 'strided_i8', 'strided_f4'}:
                out.count('flavour_layout_calls')
            with np.errstate(all='ignore'):
                sure, maybe, nband, _ = R.fof(None, None, L, prec, S=S)
                decided = sure == maybe
                if not decided:
                    out.undecide(1)
                out.count('flavour_multi_member_groups', int((np.bincount(np.array(sure)) >= 2).sum()))
                self._judge(out, res, ident, n, sure if decided else None, tag, case, Sf, L)
                changed = [a for a in owners if owners[a].tobytes() != before[a]]
                out.count('flavour_args_unchanged_checks')
                out.expect(not changed, 'argument-unchanged', '%s: the call modified its argument array(s) %s' % (tag, changed))

    def _judge(self, out, res, p, n, ref, tag, case, Sf, L):
        if not out.expect(isinstance(res, tuple) and len(res) == 4, 'shape', '%s: result is not a 4-tuple' % tag):
            return
        arrs = [np.asarray(a) for a in res]
        if not out.expect(all(a.shape == (n,) and a.dtype.kind in 'iu' for a in arrs), 'shape',
                          '%s: the four arrays must be integer arrays of length n=%d: %s' % (tag, n, [(a.shape, str(a.dtype)) for a in arrs])):
            return
        ing, mult, first, nxt = [a.astype(int) for a in arrs]
        if not out.expect(ing.min() >= 0 and ing.max() < n, 'ingroup-range', '%s: group numbers outside 0..n-1' % tag,
                          ingroup=ing):
            return
        ng = int(ing.max()) + 1
        # --- the partition itself (only when the band does not matter)
        if ref is not None:
            refp = first_order([ref[j] for j in p.tolist()])          # reference numbering in the order given to the call
            same_sets = first_order(ing.tolist()) == refp
            if not same_sets:
                # smallest witness: a pair the two partitions disagree on
                w = None
                for a in range(n):
                    for b in range(a + 1, n):
                        if (ing[a] == ing[b]) != (refp[a] == refp[b]):
                            w = {'a': int(p[a]), 'b': int(p[b]), 'pa': [case['ra'][p[a]], case['dec'][p[a]]],
                                 'pb': [case['ra'][p[b]], case['dec'][p[b]]], 'sep': float(Sf[p[a], p[b]]),
                                 'sep_over_L': float(Sf[p[a], p[b]] / L), 'same_group_returned': bool(ing[a] == ing[b]),
                                 'same_component_reference': bool(refp[a] == refp[b])}
                            break
                    if w:
                        break
                out.fail('partition', '%s: groups differ from the friends-of-friends components (%d groups, reference %d)'
                         % (tag, ng, max(refp) + 1), witness=w, ingroup=ing, reference=refp)
            else:
                out.checks += 1
                out.expect(ing.tolist() == refp, 'numbering',
                           '%s: groups are not numbered 0,1,2,.. in order of their first member' % tag, ingroup=ing, reference=refp)
        # --- the four arrays describe the same partition (always)
        own = first_order(ing.tolist())
        out.expect(own == ing.tolist(), 'numbering-self',
                   '%s: ingroup is not numbered by first appearance (internal)' % tag, ingroup=ing)
        cnt = np.bincount(ing, minlength=n)
        out.expect(bool(np.all(mult[:ng] == cnt[:ng])), 'multgroup', '%s: multgroup[g] is not the size of group g' % tag,
                   multgroup=mult[:ng], sizes=cnt[:ng])
        out.expect(bool(np.all(mult[ng:] == 0)), 'tail', '%s: multgroup entries beyond the last group are not 0' % tag,
                   tail=mult[ng:][:20])
        out.expect(bool(np.all(first[ng:] == -1)), 'tail', '%s: firstgroup entries beyond the last group are not -1' % tag,
                   tail=first[ng:][:20])
        lowest = np.full(n, -1)
        for idx in range(n - 1, -1, -1):
            lowest[ing[idx]] = idx
        out.expect(bool(np.all(first[:ng] == lowest[:ng])), 'firstgroup', '%s: firstgroup[g] is not the lowest-index member of g' % tag,
                   firstgroup=first[:ng], lowest=lowest[:ng])
        visited = np.zeros(n, dtype=int)
        bad_walk = None
        for gnum in range(ng):
            j = int(first[gnum])
            steps = 0
            while j != -1:
                if not (0 <= j < n) or steps > n:
                    bad_walk = (gnum, 'walk leaves 0..n-1 or does not end within n steps')
                    break
                if ing[j] != gnum:
                    bad_walk = (gnum, 'walk visits index %d of group %d' % (j, ing[j]))
                    break
                visited[j] += 1
                j = int(nxt[j])
                steps += 1
            if bad_walk:
                break
        out.expect(bad_walk is None, 'nextgroup', '%s: %s' % (tag, bad_walk), nextgroup=nxt, firstgroup=first[:ng])
        if bad_walk is None:
            out.expect(bool(np.all(visited == 1)), 'nextgroup',
                       '%s: following next[] from first[g] does not visit every member exactly once' % tag,
                       visits=visited, nextgroup=nxt)

    def _wide_links(self, ra, Sf, L, labels, limit=60):
        """counters only: linked pairs (separation below L) whose RAs differ by more than WIDE_DRA the shorter way round,
        those among them whose raw RA difference exceeds 180 deg (one RA near 0, the other near 360), and how many of each
        are bridges (no other chain joins the two positions: without this link the group falls apart)"""
        n = ra.size
        ii, jj = np.nonzero(np.triu(Sf < L, 1))
        raw = np.abs(ra[ii] - ra[jj])
        dra = np.minimum(raw, 360.0 - raw)
        lab = np.asarray(labels)
        res = []
        for sel in (dra > WIDE_DRA, raw > 180.0):
            pairs = list(zip(ii[sel].tolist(), jj[sel].tolist()))
            nb = 0
            for a, b in pairs[:limit]:
                mem = np.nonzero(lab == lab[a])[0]
                sub = Sf[np.ix_(mem, mem)] < L
                pa, pb = int(np.nonzero(mem == a)[0][0]), int(np.nonzero(mem == b)[0][0])
                sub[pa, pb] = sub[pb, pa] = False
                comp = R.components(sub)
                nb += int(comp[pa] != comp[pb])
            res += [len(pairs), nb]
        return tuple(res)

    def _pole_counters(self, out, dec, atpole, Sf, L, labels, sizes):
        """counters only: positions exactly at Dec +-90 and what they do in the reference partition"""
        lab = np.asarray(labels)
        north, south = int((dec == 90.0).sum()), int((dec == -90.0).sum())
        out.count('pole_cases')
        out.count('pole_points_north', north)
        out.count('pole_points_south', south)
        if north and south:
            out.count('both_poles_cases')
        if north >= 2 or south >= 2:
            out.count('pole_duplicate_cases')
        idx = np.nonzero(atpole)[0]
        out.count('pole_point_in_multi_member_group', int(sum(sizes[lab[j]] >= 2 for j in idx)))
        out.count('pole_point_alone', int(sum(sizes[lab[j]] == 1 for j in idx)))
        rest = np.nonzero(~atpole)[0]
        out.count('pole_point_linked_to_other_positions', int((Sf[np.ix_(idx, rest)] < L).any(axis=1).sum()) if rest.size else 0)
        if 2 <= rest.size <= 300:
            # hub: without the positions at the pole the others form more groups than with them
            without = len(set(R.components(Sf[np.ix_(rest, rest)] < L)))
            if without > len(set(lab[rest].tolist())):
                out.count('pole_point_is_only_link_cases')

    def _geometry_counters(self, out, ra, dec, labels):
        c = self._chunk
        if c is None:
            return 0
        span = 0
        try:
            off = c.raOffset
            home = [tuple(c.get(float(np.fmod(a + off, 360.0)), float(d))) for a, d in zip(ra, dec)]
            cells = {}
            for lab, h in zip(labels, home):
                cells.setdefault(lab, set()).add(h)
            cnt = {}
            for lab in labels:
                cnt[lab] = cnt.get(lab, 0) + 1
            span = sum(1 for lab, s in cells.items() if cnt[lab] >= 2 and len(s) >= 2)
            out.count('groups_spanning_chunks', span)
            tot = sum(len(cell) for row in c.chunkList for cell in row)
            out.count('replicated_points', tot - len(ra))
            # a position for which chunks.get() names no chunk (slice -1 / nDec) is not this function's business: the
            # verdict on its group comes from the oracle; here it is only counted
            placed = [h for h in home if 0 <= h[1] < c.nDec and h[0] >= 0]
            out.count('positions_without_home_chunk', len(home) - len(placed))
            home = placed
            if any(c.nRa[h[1]] == 1 for h in home):
                out.count('polar_slice_cases')
            if c.raOffset != 0.0 or any(c.raBounds[h[1]][0] == 0.0 and c.raBounds[h[1]][-1] == 360.0 for h in home):
                out.count('seam_cases')
        except self.SG.PydlutilsException:
            out.count('geometry_counter_errors')
        return span

    def summarise(self, case):
        c = dict(case)
        for k in ('ra', 'dec'):
            c[k] = case[k][:8] + (['... %d values' % len(case[k])] if len(case[k]) > 8 else [])
        return c

    def extra_evidence(self, merged):
        nlat = merged['per_class'].get('lattice', {}).get('n', 0)
        return {'lattice_subspace': {'size': LAT_TOTAL, 'enumerated': nlat,
                                     'exhaustive': bool(nlat == LAT_TOTAL and not merged.get('truncated')),
                                     'definition': 'all placements of 2, 3 and 4 points on a 5x5 lattice of spacing 0.6 L '
                                                   '(L = 0.1 deg) centred on a chunk corner (RA~150, Dec~35), on RA 0/360 '
                                                   '(Dec 10) and at Dec 89, plus 4 fixed anchor points that pin the chunk grid'}}


CHECK = C05()
