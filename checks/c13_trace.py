"""C13 - trace sets: bases are the textbook polynomials; fit / evaluate are consistent.

Events: flegendre / fchebyshev / fchebyshev_split / fpoly(x, m); func_fit(...); xy2traceset / TraceSet(...),
        traceset2xy(tset, xpos), tset.xy()  (boundary recorder on the module attributes).
Oracle: vlib/refs/traceref.py - numpy.polynomial Vandermonde matrices and plain powers for the bases
        (split basis = [H(x), 1, T1, T2, ...]), SVD-based weighted lstsq for fits (never normal equations),
        an independent xnorm (affine map + BOSS jump) for trace-set evaluation, exact rationals for the grid size.
"""
import numpy as np
from vlib.harness import Check, np_rng
from vlib.refs import traceref as R

FUNCS = ['legendre', 'chebyshev', 'poly', 'chebyshev_split']
ALIAS = {'legendre': 'flegendre', 'chebyshev': 'fchebyshev', 'poly': 'fpoly', 'chebyshev_split': 'fchebyshev_split'}
DT = {'f8': np.float64, 'f4': np.float32, 'f2': np.float16}
EPS = {'f8': R.EPS64, 'f4': R.EPS32, 'f2': float(np.finfo(np.float16).eps)}
K_COEFF = {'f8': 2000.0, 'f4': 200.0}           # coefficient tolerance = K * eps * cond^2 * scale (observed <= 12 / 1.1)
COEFF_DECIDABLE = {'f8': 1e-3, 'f4': 2e-2}      # coefficient comparison only when the relative tolerance is below this
GRAD_TOL = {'f8': 1e-9, 'f4': 5e-5}    # relative normal-equation residual (observed <= 5e-15 / 1.4e-7)
YFIT_TOL = {'f8': 1e-10, 'f4': 2e-4}   # yfit vs basis @ returned coefficients (observed <= 4e-14 / 9e-7)
COND_MAX = {'f8': 3e4, 'f4': 25.0}    # generator keeps problems this well conditioned
SPLIT_BAND = {'f8': 1e-12, 'f4': 1e-5}  # |xnorm| closer than this to the H(x) step is undecided


def _mixed_abscissae(g, n):
    """abscissae in [-1, 1]: uniform, piled up at +-1 and 0, exact special values, Chebyshev nodes."""
    parts = [g.uniform(-1, 1, n),
             1 - 10.0 ** g.uniform(-16, -1, n),
             -1 + 10.0 ** g.uniform(-16, -1, n),
             10.0 ** g.uniform(-300, -1, n) * g.choice([-1.0, 1.0], n),
             np.cos(g.uniform(0, np.pi, n)),
             g.choice([-1.0, 1.0, 0.0, -0.0, 0.5, -0.5], n)]
    x = np.concatenate(parts)
    g.shuffle(x)
    return np.clip(x[:n], -1.0, 1.0)


def _fit_abscissae(g, n, style):
    if style == 'uniform':
        x = g.uniform(-1, 1, n)
    elif style == 'cluster':
        x = np.where(g.uniform(size=n) < 0.5, 1 - 10.0 ** g.uniform(-8, -0.3, n), -1 + 10.0 ** g.uniform(-8, -0.3, n))
    elif style == 'cheb':
        x = np.cos(g.uniform(0, np.pi, n))
    elif style == 'grid':
        x = g.choice(np.linspace(-1, 1, max(n // 2, 8)), n)       # repeated abscissae
    elif style == 'ends':
        x = g.uniform(-1, 1, n)
        x[:2] = [-1.0, 1.0]
        x[2:4] = [0.0, -0.0][:max(0, min(2, n - 2))]
    else:                                                          # 'wide': outside [-1, 1] as in the repo's own test
        x = g.uniform(-3, 3, n)
    return x


LAYOUTS = ['C', 'F', 'T', 'strided', 'Fstrided', 'reversed', 'rowreversed', 'readonly', 'bigendian']
LAYOUTS_1D = ['C', 'C', 'strided', 'reversed', 'readonly', 'bigendian']


def relayout(a, kind):
    """Same shape, same values, different memory layout / flags (standing layout family for array arguments)."""
    a = np.array(a)                 # always a private copy: the result never shares memory with the argument
    if kind == 'C' or a.ndim == 0:
        return np.array(a, order='C')
    if a.ndim == 1:
        if kind == 'strided':
            big = np.full(2 * a.size, 1, dtype=a.dtype)
            big[::2] = a
            return big[::2]
        if kind == 'reversed':
            return np.ascontiguousarray(a[::-1])[::-1]
        if kind == 'readonly':
            b = a.copy()
            b.setflags(write=False)
            return b
        if kind == 'bigendian' and a.dtype.kind == 'f':      # FITS-native byte order
            return a.astype(a.dtype.newbyteorder('>'))
        return a.copy()
    if kind == 'F':
        return np.asfortranarray(a)
    if kind == 'T':                                    # IDL-style [nx, nTrace] data handed over as arr.T
        return np.ascontiguousarray(a.T).T
    if kind == 'strided':                              # C-ordered: every second column of a wider buffer
        big = np.full((a.shape[0], 2 * a.shape[1]), 1, dtype=a.dtype)
        big[:, ::2] = a
        return big[:, ::2]
    if kind == 'Fstrided':                             # Fortran-ordered: every second row of a taller buffer
        big = np.full((2 * a.shape[0], a.shape[1]), 1, dtype=a.dtype, order='F')
        big[::2, :] = a
        return big[::2, :]
    if kind == 'reversed':                             # negative stride along the pixel axis
        return np.ascontiguousarray(a[:, ::-1])[:, ::-1]
    if kind == 'rowreversed':                          # negative stride along the trace axis
        return np.ascontiguousarray(a[::-1])[::-1]
    if kind == 'readonly':
        b = a.copy()
        b.setflags(write=False)
        return b
    if kind == 'bigendian':                            # what a FITS table delivers
        return a.astype(a.dtype.newbyteorder('>')) if a.dtype.kind == 'f' else a.copy()
    raise KeyError(kind)


SHIFTS = [0.0, 1e-12, 1e-9, 1e-7, 1e-6, 1e-5, 1e-4, 1e-3]


def near_rows(rng, g, row0, nT, mixed):
    """'nearly equal rows' family: every row = a common grid + a per-row shift of 0 / 1e-12 ... 1e-3, relative to |x| or
    absolute in units of max|x| (large-offset grids); with mixed=True some rows are exactly row 0 and some unrelated."""
    row0 = np.asarray(row0, dtype=np.float64)
    rows = [row0]
    big = max(1.0, float(np.abs(row0).max()))
    for _ in range(1, nT):
        r = rng.random()
        if mixed and r < 0.25:
            rows.append(row0.copy())
        elif mixed and r < 0.5:
            rows.append(g.permutation(row0) + g.uniform(-1, 1, row0.size))
        else:
            sft = rng.choice(SHIFTS) * rng.choice([-1.0, 1.0])
            rows.append(row0 * (1.0 + sft) if rng.random() < 0.5 else row0 + sft * big)
    return np.array(rows)


def count_row_closeness(out, xpos):
    """which decision an 'are all rows the same?' test would have to take for this explicit xpos"""
    x = np.asarray(xpos, dtype=np.float64)
    if x.shape[0] < 2:
        return
    d = np.abs(x[1:] - x[:1])
    if not d.any():
        out.count('xpos_rows_identical')
        return
    rel = float((d / np.maximum(np.abs(x[:1]), 1e-300)).max())
    for lim, name in ((1e-10, '1e-10'), (1e-7, '1e-7'), (1e-5, '1e-5'), (1e-3, '1e-3')):
        if rel <= lim * 1.001:
            out.count('xpos_rows_differ_by_at_most_%s_relative' % name)
            break
    else:
        out.count('xpos_rows_unrelated')
    if (d <= 1e-8 + 1e-5 * np.abs(x[:1])).all():
        out.count('xpos_rows_different_but_allclose')


def scribble(a):
    """write into an array a call returned / was given (what a caller may legitimately do with its own arrays)"""
    a = np.asarray(a)
    if not a.flags.writeable or a.size == 0:
        return False
    if a.dtype.kind == 'f':
        a[...] = np.nan
    elif a.dtype.kind == 'b':
        a[...] = ~a
    else:
        a[...] = a + 7
    return True


def no_alias(out, clause, pairs):
    for name, a, b in pairs:
        out.expect(not np.shares_memory(np.asarray(a), np.asarray(b)), clause,
                   '%s share memory: writing into one changes the other' % name)
    out.count('shares_memory_checked', len(pairs))


YDT = {'same': None, 'f8': np.float64, 'i2': np.int16, 'i4': np.int32, 'i8': np.int64, 'u2': np.uint16, 'f4': np.float32}


def _lst(a):
    return np.asarray(a, dtype=np.float64).tolist()


class C13(Check):
    ID = 'C13'
    RULE = ('bases: 1-200 abscissae in [-1,1] (uniform, piled up to 1e-16 from +-1 and 1e-300 from 0, exact -1/0/-0/1, '
            'Chebyshev nodes; float64 and float32 arrays, Python/numpy scalars, 0-d arrays, integer-typed arrays and '
            'numpy integer scalars) for m = 1..13 functions of all four families; func_fit: 5-200 points (sorted/unsorted, '
            'clustered at +-1, repeated, some in [-3,3]), 1-8 coefficients, all eight function names, weights '
            'constant/uniform/6 decades/1/scale^2 with 0-40% zero weights, random fixed-coefficient patterns with and '
            'without inputans, inputfunc, data scale 1e-3..1e6, exact basis combinations, float32 problems; every '
            'zero-weight point is then moved and its y changed by 1e6*scale and the fit repeated; trace sets: 1-6 traces, '
            '10-400 positions (pixel grids with jitter, shuffled, float32), invvar with zeros and/or a 1/0 inmask given as bool, '
            'int8/16/32/64, uint8/16 or float, masked points on the curve or 3..3000 amplitudes off it, then every masked / '
            'zero-weight y changed by 1e6*scale and the set refitted; explicit or data xmin/xmax, '
            'jump window inside / below / above the x range, starting exactly at 0, ending exactly at 0 or at the last pixel, '
            'xjumpval negative / 1e-9..1e-4 / exactly 0, explicit xmin = 0 with data starting later, maxiter = 0, both '
            'constructors; float32 and float16 abscissa arrays with m = 8..13 (standing precision class, tolerance '
            '4*eps*d^2); FITS-style tables (D and E columns) with '
            'random coefficient matrices evaluated at given positions, on the default grid and with ignore_jump, then again '
            '(every explicit xpos and every array given to xy2traceset drawn from the layout family C / Fortran / transposed '
            'view / C- and F-strided / reversed along either axis / read-only / big-endian, func_fit arguments strided / '
            'reversed / read-only / big-endian; rows of the positions unrelated, identical, or one common grid (offsets 0, 1000..5000, '
            '3500, 1e5) with per-row shifts of 0 / 1e-12 .. 1e-3 relative or absolute, the default grid given explicitly, points and '
            'explicit xmin/xmax 1e-12..1e-3 beside xmin, xmax, the jump edges and the data extremes; with float64 positions '
            'ypos also int16/int32/int64/uint16 or float32 and invvar float32; after every call the returned arrays, the '
            'arguments and the first object\'s coeff/yfit/outmask are overwritten and the call repeated on the same and on a '
            'fresh object) '
            'on the same object in another order (jump / ignore_jump alternating, reshaped xpos, first xpos again); default '
            'grids with xmax-xmin exactly integral, within 1e-12..1e-3 of an integer and generic.  Non-trivial: a basis '
            'case with m >= 3; a fit with unequal weights, a zero weight or a fixed coefficient; a trace set with >= 2 '
            'coefficients; distinct by hash of the materialised input.')
    ASSUMPTIONS = ['fit domain: x, y, invvar (inputans, inputfunc) of one float dtype, non-negative weights, boolean ia, '
                   '>= ncoeff+1 distinct positively weighted abscissae (split basis: on both sides of 0), weighted design '
                   'matrix condition <= 3e4 (float32: 25; some fit cases up to 3e5, gradient test only) so that normal equations are meaningful',
                   'coefficient tolerance 2000*eps*cond^2*(|c|+|data|/smax) (float32: 200*eps32; calibrated max 12 / 1.1 in these units), compared only when < 1e-3 (2e-2) relative; gradient '
                   'tolerance 1e-9 (float32 5e-5) relative to smax*(smax*|c|+|b|); basis tolerance '
                   '100*eps*max(d^2, 2d*sum|monomial coefficients|) per order for float64; bases returned in float32/float16 '
                   '(arrays and numpy float32 scalars): 4*eps*max(d^2,1) with eps of that dtype, reference at the stored abscissa '
                   '(unchanged code measured <= 0.16*d^2*eps, i.e. 25x margin)',
                   'H(x) of the split basis inside trace sets: positions with |xnorm| < 1e-12*(1+max|x|/range) (float32 1e-5*...) are undecided; evaluation tolerances scale with the same amplification',
                   'grid size: xmax-xmin within 64*eps*max(1,|xmin|,|xmax|) of an integer but not exactly integral is undecided',
                   'inmask follows the xy2traceset docstring ("1 for good points and 0 for rejected points", array-like): any bool, '
                   'integer or float array holding only 1/0; invvar is a float array of the positions\' dtype',
                   'trace-set domain: float positions, xmax > xmin, xjumphi > xjumplo, function names '
                   'legendre/chebyshev/poly/chebyshev_split (the aliases flegendre... are only func_fit names)']
    REQUIRED_COUNTERS = ('basis_rows_checked', 'basis_rows_float32', 'scalar_abscissae', 'int_abscissae',
                         'fit_coeff_compared', 'fit_gradient_checked', 'fit_fixed_exact', 'fit_fixed_default_zero',
                         'fit_inputfunc', 'fit_single_free_parameter', 'zero_weight_perturbations', 'fit_unit_weight_default',
                         'exact_combinations_recovered', 'exact_recovered_to_1e-9', 'fit_float32',
                         'tset_roundtrip_jump', 'tset_roundtrip_nojump', 'tset_roundtrip_split', 'tset_roundtrip_float32',
                         'tset_fit_coeff_compared', 'tset_inmask_used', 'tset_jump_window_inside',
                         'tset_inmask_bool', 'tset_inmask_signed_int', 'tset_inmask_unsigned_int', 'tset_inmask_float',
                         'tset_masked_points_perturbed', 'tset_masked_by_inmask', 'tset_masked_by_zero_invvar',
                         'tset_masked_outliers', 'repeat_eval_same_object', 'repeat_eval_alternating_jump',
                         'basis_lowprec_high_order_rows', 'basis_lowprec_high_order_legendre',
                         'basis_lowprec_high_order_chebyshev', 'basis_lowprec_high_order_poly',
                         'basis_lowprec_high_order_chebyshev_split', 'basis_rows_float16',
                         'tset_jump_lo_exactly_zero', 'tset_jump_hi_exactly_zero', 'tset_jump_hi_at_last_pixel',
                         'tset_jump_val_zero', 'tset_jump_val_tiny', 'tset_jump_val_negative', 'tset_jump_window_outside',
                         'tset_xmin_explicit_zero', 'table_jump_falsy_value',
                         'xpos_layout_C', 'xpos_layout_F', 'xpos_layout_T', 'xpos_layout_strided', 'xpos_layout_Fstrided',
                         'xpos_layout_reversed', 'xpos_layout_rowreversed', 'xpos_layout_readonly', 'xpos_layout_bigendian',
                         'xpos_rows_identical', 'xpos_rows_unrelated', 'xpos_rows_different_but_allclose',
                         'xpos_rows_differ_by_at_most_1e-10_relative', 'xpos_rows_differ_by_at_most_1e-7_relative',
                         'xpos_rows_differ_by_at_most_1e-5_relative', 'xpos_rows_differ_by_at_most_1e-3_relative',
                         'xpos_explicit_default_grid_or_hair_beside', 'tset_explicit_limits_hair_beside_data',
                         'writethrough_default_grid', 'writethrough_explicit_xpos', 'writethrough_fresh_object', 'writethrough_tset_objects',
                         'writethrough_func_fit', 'writethrough_basis', 'shares_memory_checked',
                         'tset_ypos_integer_dtype', 'tset_ypos_float32_with_float64_xpos', 'tset_invvar_float32_with_float64_xpos',
                         'tset_fit_args_layout_not_C', 'fit_args_layout_strided', 'fit_args_layout_reversed',
                         'fit_args_layout_readonly', 'fit_args_layout_bigendian',
                         'table_eval_jump', 'table_eval_ignore_jump', 'table_eval_nojump', 'table_split_step_decided',
                         'grid_decided', 'grid_exact_integer_range', 'grid_fractional_range', 'grid_near_integer_range')
    MIN_NONTRIVIAL = 50

    # ------------------------------------------------------------------ setup
    def setup(self):
        import pydl.pydlutils.trace as T
        import pydl.goddard.math as GM
        import pydl.pydlutils.misc as M
        from astropy.io import fits
        self.T, self.GM, self.M, self.fits = T, GM, M, fits
        originals = [GM.flegendre, T.fchebyshev, T.fchebyshev_split, T.fpoly, T.func_fit, T.traceset2xy, T.xy2traceset,
                     T.TraceSet.__init__, T.TraceSet.xy, T.TraceSet.xnorm, M.djs_laxisgen, M.djs_laxisnum]
        for f in originals:
            self.reach.add(f)
        self.brd.per_case = 1
        self.brd.attach(self.rec, GM, 'flegendre', every=7, own=True)
        for n in ('fchebyshev', 'fchebyshev_split', 'fpoly', 'func_fit', 'traceset2xy', 'xy2traceset'):
            self.brd.attach(self.rec, T, n, every=7, own=(n != 'xy2traceset'))
        self.brd.attach(self.rec, T.TraceSet, 'xy', label='TraceSet.xy', every=7, own=True)
        self.rec.wrap(GM, 'flegendre')
        for n in ('fchebyshev', 'fchebyshev_split', 'fpoly', 'func_fit', 'traceset2xy', 'xy2traceset'):
            self.rec.wrap(T, n)
        self.rec.wrap(T.TraceSet, 'xy', label='TraceSet.xy')

    def teardown(self):
        self.rec.unwrap_all()

    def basis_func(self, fn):
        fn = R.CANON[fn]
        return {'legendre': self.GM.flegendre, 'chebyshev': self.T.fchebyshev, 'poly': self.T.fpoly,
                'chebyshev_split': self.T.fchebyshev_split}[fn]

    def budget(self, tier):
        q = tier == 'quick'
        return {'basis': 1200 if q else 12000, 'basis_scalar': 800 if q else 8000, 'basis_int': 160 if q else 1500,
                'basis_lowprec': 400 if q else 5000,
                'fit': 2400 if q else 30000, 'fit_exact': 800 if q else 10000, 'fit_f32': 800 if q else 10000,
                'tset_fit': 900 if q else 10000, 'tset_table': 700 if q else 8000, 'grid': 500 if q else 6000}

    # ------------------------------------------------------------------ generators
    def gen(self, cls, rng, i):
        g = np_rng(rng)
        deep = self.tier != 'quick'
        if cls == 'basis':
            fn = FUNCS[i % 4]
            m = rng.randint(2 if fn == 'chebyshev_split' else 1, 13)
            n = rng.choice([1, 2, 5, 17, rng.randint(1, 200)])
            dt = 'f4' if rng.random() < 0.3 else 'f8'
            x = _mixed_abscissae(g, n).astype(DT[dt])
            if rng.random() < 0.3:
                x = np.sort(x)
            return {'kind': cls, 'fn': fn, 'm': m, 'dtype': dt, 'x': _lst(x)}
        if cls == 'basis_lowprec':
            # standing precision class: single / half precision arrays at the orders where a low-precision algorithm shows
            fn = FUNCS[i % 4]
            m = rng.randint(8, 13)
            dt = 'f2' if rng.random() < 0.3 else 'f4'
            n = rng.randint(20, 300)
            x = _mixed_abscissae(g, n)
            sel = g.uniform(size=n) < 0.5
            x[sel] = (g.choice([-1.0, 1.0], n) * g.uniform(0.8, 1.0, n))[sel]      # power forms cancel worst near |x| ~ 0.9-1
            return {'kind': 'basis', 'fn': fn, 'm': m, 'dtype': dt, 'x': _lst(x.astype(DT[dt]))}
        if cls == 'basis_scalar':
            fn = FUNCS[i % 4]
            m = rng.randint(2 if fn == 'chebyshev_split' else 1, 13)
            stype = rng.choice(['pyfloat', 'pyfloat', 'pyint', 'np64', 'np32', 'arr0d'])
            if stype == 'pyint':
                x = rng.choice([-1, 0, 1])
            else:
                x = float(_mixed_abscissae(g, 1)[0])
                if stype == 'np32':
                    x = float(np.float32(x))
            return {'kind': cls, 'fn': fn, 'm': m, 'stype': stype, 'x': x}
        if cls == 'basis_int':
            fn = FUNCS[i % 4]
            m = rng.randint(3, 13)
            itype = rng.choice(['i8', 'i4', 'i2', 'i8scalar', 'i4scalar'])
            n = 1 if itype.endswith('scalar') else rng.randint(1, 12)
            return {'kind': cls, 'fn': fn, 'm': m, 'itype': itype, 'x': [rng.choice([-1, 0, 1]) for _ in range(n)]}
        if cls in ('fit', 'fit_exact', 'fit_f32'):
            return self.gen_fit(cls, rng, g, i, deep)
        if cls == 'tset_fit':
            return self.gen_tset_fit(rng, g, i, deep)
        if cls == 'tset_table':
            return self.gen_table(rng, g, i, deep, grid=False)
        if cls == 'grid':
            return self.gen_table(rng, g, i, deep, grid=True)
        raise KeyError(cls)

    def gen_fit(self, cls, rng, g, i, deep):
        dt = 'f4' if cls == 'fit_f32' else 'f8'
        fnc = FUNCS[i % 4]
        fn = ALIAS[fnc] if rng.random() < 0.25 else fnc
        lo = 2 if fnc == 'chebyshev_split' else 1
        for attempt in range(40):
            nc = rng.randint(lo, 4 if dt == 'f4' else 8)
            n = rng.randint(max(5, nc + 2), rng.choice([12, 40, 200]))
            style = rng.choice(['uniform', 'cluster', 'cheb', 'grid', 'ends', 'wide']) if attempt < 30 else 'uniform'
            x = _fit_abscissae(g, n, style)
            if rng.random() < 0.4:
                x = np.sort(x)
            scale = 10.0 ** rng.uniform(-3, 6) if dt == 'f8' else 10.0 ** rng.uniform(-2, 3)
            wmode = rng.choice(['none', 'ones', 'uniform', 'decades', 'physical'])
            if wmode in ('none', 'ones'):
                iv = np.ones(n)
            elif wmode == 'uniform':
                iv = g.uniform(0.2, 3, n)
            elif wmode == 'decades':
                iv = 10.0 ** g.uniform(-3, 3, n)
            else:
                iv = g.uniform(0.2, 3, n) / scale ** 2
            if wmode != 'none':
                iv[g.uniform(size=n) < rng.choice([0, 0.1, 0.4])] = 0.0
            x = x.astype(DT[dt])
            iv = iv.astype(DT[dt])
            good = iv > 0
            xg = x[good].astype(np.float64)
            if len(np.unique(xg)) < nc + 1:
                continue
            if fnc == 'chebyshev_split' and ((xg < 0).sum() < 2 or (xg >= 0).sum() < 2):
                continue
            fixmode = rng.choice(['none', 'none', 'some', 'some', 'some', 'some_noans', 'one_free', 'all_fixed'])
            if nc == 1 and fixmode != 'none':
                fixmode = rng.choice(['none', 'all_fixed'])
            ia = np.ones(nc, dtype=bool)
            if fixmode in ('some', 'some_noans'):
                ia = g.uniform(size=nc) < 0.6
                if ia.all():
                    ia[rng.randrange(nc)] = False
                if not ia.any():
                    ia[rng.randrange(nc)] = True
            elif fixmode == 'one_free':
                ia[:] = False
                ia[rng.randrange(nc)] = True
            elif fixmode == 'all_fixed':
                ia[:] = False
            ans = None
            if fixmode in ('some', 'one_free', 'all_fixed'):
                ans = (g.normal(size=nc) * scale).astype(DT[dt])
            elif fixmode == 'none' and rng.random() < 0.15:
                ans = (g.normal(size=nc) * scale).astype(DT[dt])     # inputans given although nothing is fixed
            inf = g.uniform(0.5, 2, n).astype(DT[dt]) if rng.random() < 0.25 else None
            B = R.basis(fnc, x, nc)
            if inf is not None:
                B = B * inf.astype(np.float64)
            fixed_vals = np.zeros(nc) if ans is None else ans.astype(np.float64)
            ctrue = None
            if cls == 'fit_exact':
                ctrue = np.where(ia, g.normal(size=nc) * scale * rng.choice([1.0, 1.0, 0.0, 1e-3]), fixed_vals)
                y = ctrue @ B
            else:
                y = scale * (g.normal(size=n) + rng.gauss(0, 3) + rng.choice([0, 1]) * np.sin(3 * x.astype(np.float64)))
            y = y.astype(DT[dt])
            ref = R.wlsq(B, y, iv, ia, fixed_vals)
            if ref['cond'] > COND_MAX[dt] * (10 if cls == 'fit' and attempt % 2 else 1):
                continue
            case = {'kind': cls, 'dtype': dt, 'fn': fn, 'nc': nc, 'x': _lst(x), 'y': _lst(y),
                    'iv': None if wmode == 'none' else _lst(iv), 'ia': None if fixmode == 'none' else ia.tolist(),
                    'ans': None if ans is None else _lst(ans), 'inputfunc': None if inf is None else _lst(inf),
                    'pseed': rng.getrandbits(32), 'vlayout': rng.choice(LAYOUTS_1D)}
            if ctrue is not None:
                case['ctrue'] = _lst(ctrue)
            return case
        return None

    def _positions(self, rng, g, nT, nx, dt):
        span = rng.choice([nx, nx, 2048, 4096, rng.uniform(5, 500)])
        off = rng.choice([0.0, 0.0, rng.uniform(-50, 50), rng.uniform(0, 3000)])
        base = np.linspace(0, span - 1, nx) if rng.random() < 0.7 else np.sort(g.uniform(0, span - 1, nx))
        mode = rng.choice(['same', 'jitter', 'shuffle', 'nearrows', 'nearrows'])
        if mode == 'nearrows':
            # one grid (pixel grid with a large offset, wavelength-like) with per-row shifts of 0 / 1e-12 .. 1e-3
            off = rng.choice([0.0, 1000.0, rng.uniform(1000, 5000), 3500.0, 1e5])
            return near_rows(rng, g, base + off, nT, rng.random() < 0.4).astype(DT[dt])
        xpos = np.tile(base, (nT, 1)) + off
        if mode not in ('same',):
            xpos = xpos + g.uniform(-0.3, 0.3, (nT, nx)) * (span / nx)
        if mode == 'shuffle':
            for t in range(nT):
                g.shuffle(xpos[t])
        return xpos.astype(DT[dt])

    def gen_tset_fit(self, rng, g, i, deep):
        func = FUNCS[i % 4]
        dt = 'f4' if rng.random() < 0.3 else 'f8'
        lo = 2 if func == 'chebyshev_split' else 1
        for attempt in range(40):
            nT = rng.randint(1, 6)
            nc = rng.randint(lo, 3 if dt == 'f4' else 8)
            nx = rng.randint(max(10, nc + 4), 400 if deep else 120)
            xpos = self._positions(rng, g, nT, nx, dt)
            x64 = xpos.astype(np.float64)
            dmin, dmax = float(x64.min()), float(x64.max())
            mm = rng.choice(['data', 'data', 'wider', 'exact', 'zero', 'hair'])
            if mm == 'zero' and not dmin > 0:
                mm = 'wider'
            if mm == 'zero':                       # explicit xmin = 0 (a falsy value) although the data start later
                xmin, xmax = 0.0, float(np.ceil(dmax))
                rmin, rmax = xmin, xmax
            elif mm == 'hair':                   # explicit limits a hair outside the data extremes: must be kept as given
                h = 10.0 ** rng.uniform(-12, -4)
                xmin = dmin - h * max(1.0, abs(dmin))
                xmax = dmax + h * max(1.0, abs(dmax))
                rmin, rmax = xmin, xmax
            elif mm == 'data':
                xmin = xmax = None
                rmin, rmax = dmin, dmax
            elif mm == 'wider':
                xmin = float(np.floor(dmin - rng.choice([0, 0.5, 3])))
                xmax = float(np.ceil(dmax + rng.choice([0.5, 1, 7])))
                rmin, rmax = xmin, xmax
            else:
                xmin, xmax = dmin, dmax
                rmin, rmax = dmin, dmax
            if not rmax - rmin > 1.0:
                continue
            if dt == 'f4' and max(abs(rmin), abs(rmax)) / (rmax - rmin) > 10:
                continue
            jump = None
            jm = rng.choice(['none', 'none', 'inside', 'inside', 'below', 'above', 'partial',
                             'lo_zero', 'lo_zero', 'hi_zero', 'hi_last', 'val_zero', 'val_tiny'])
            if jm != 'none':
                w = rng.uniform(0.5, 0.3 * (rmax - rmin))
                val = rng.choice([-1, 1]) * rng.uniform(0.1, 3.0)
                if jm == 'val_zero':
                    val = 0.0
                elif jm == 'val_tiny':
                    val = rng.choice([-1, 1]) * 10.0 ** rng.uniform(-9, -4)
                if jm == 'inside':
                    lo_ = rng.uniform(rmin, rmax - w)
                elif jm == 'below':
                    lo_ = rmin - w - rng.uniform(1, 50)
                elif jm == 'above':
                    lo_ = rmax + rng.uniform(1, 50)
                elif jm == 'partial':
                    lo_ = rmin - w / 2
                else:
                    lo_ = rng.uniform(rmin, rmax - w)
                jump = [float(np.float32(lo_)), float(np.float32(lo_)) + float(np.float32(w)), float(np.float32(val))]
                # boundary / falsy option values: window starting exactly at pixel 0, ending exactly at 0, ending at the last pixel
                if jm == 'lo_zero':
                    jump[0], jump[1] = 0.0, float(np.float32(w))
                elif jm == 'hi_zero':
                    jump[0], jump[1] = -float(np.float32(w)), 0.0
                elif jm == 'hi_last':
                    jump[0], jump[1] = rmax - float(np.float32(w)), rmax
                if not jump[1] > jump[0]:
                    continue
            iv = None
            ivm = rng.choice(['none', 'none', 'uniform', 'zeros'])
            if ivm != 'none':
                iv = g.uniform(0.2, 3, (nT, nx))
                if ivm == 'zeros':
                    iv[g.uniform(size=(nT, nx)) < 0.15] = 0.0
                iv = iv.astype(DT[dt])
            ivdtype = 'same'
            if iv is not None and dt == 'f8' and rng.random() < 0.3:
                ivdtype = 'f4'                     # weights in another float dtype than the positions
                iv = iv.astype(np.float32).astype(np.float64)
            inmask = None
            mask_dtype = None
            if rng.random() < 0.5:
                inmask = g.uniform(size=(nT, nx)) > rng.choice([0.05, 0.15, 0.3])
                # "Mask set to 1 for good points and 0 for rejected points": every flavour of 1/0 array
                mask_dtype = rng.choice(['bool', 'bool', 'i1', 'i2', 'i4', 'i8', 'i8', 'u1', 'u2', 'float'])
            # data: smooth curve in normalised x + noise, fibre-position like scale
            xn = R.xnorm(x64, rmin, rmax, jump)
            amp = 10.0 ** rng.uniform(0, 3.5)
            ypos = (g.normal(size=(nT, 1)) * amp + amp * 0.1 * g.normal(size=(nT, 1)) * xn +
                    amp * 0.02 * g.normal(size=(nT, 1)) * xn ** 2 + g.normal(size=(nT, nx)) * rng.choice([0.01, 0.3, 1.0]))
            if func == 'chebyshev_split':
                ypos = ypos + (xn >= 0) * rng.uniform(-5, 5)
            w = np.ones((nT, nx)) if iv is None else iv.astype(np.float64)
            if inmask is not None:
                w = w * inmask
            outliers = rng.random() < 0.5
            if outliers:      # what masks are for: the masked / zero-weight points are wildly off the curve
                off = (w == 0) * g.choice([-1.0, 1.0], (nT, nx)) * amp * 10.0 ** g.uniform(0.5, 3.5, (nT, nx))
                ypos = ypos + off
            ypos = ypos.astype(DT[dt])
            ydtype = 'same'
            if dt == 'f8':                         # ypos dtype independent of xpos: detector rows / counts, single precision
                ydtype = rng.choice(['same', 'same', 'same', 'i2', 'i4', 'i8', 'u2', 'f4'])
                if ydtype == 'f4':
                    ypos = ypos.astype(np.float32).astype(np.float64)
                elif ydtype != 'same':
                    ypos = np.round(ypos)
                    lim = float(np.abs(ypos).max())
                    if ydtype == 'u2' and (ypos.min() < 0 or lim > 65000):
                        ydtype = 'i8'
                    if ydtype == 'i2' and lim > 32000:
                        ydtype = 'i4'
                    if ydtype == 'i4' and lim > 2e9:
                        ydtype = 'i8'
            ok = True
            for t in range(nT):
                gd = w[t] > 0
                xg = xn[t][gd]
                if len(np.unique(xg)) < nc + 1:
                    ok = False
                    break
                if func == 'chebyshev_split' and ((xg < 0).sum() < 2 or (xg >= 0).sum() < 2 or
                                                  np.abs(xg).min() < 1e3 * SPLIT_BAND[dt]):
                    ok = False
                    break
                if R.wlsq(R.basis(func, xn[t], nc), ypos[t], w[t])['cond'] > COND_MAX[dt]:
                    ok = False
                    break
            if not ok:
                continue
            return {'kind': 'tset_fit', 'dtype': dt, 'func': func, 'nc': nc, 'xpos': [_lst(r) for r in xpos],
                    'ypos': [_lst(r) for r in ypos], 'invvar': None if iv is None else [_lst(r) for r in iv],
                    'inmask': None if inmask is None else inmask.tolist(), 'mask_dtype': mask_dtype, 'outliers': outliers,
                    'pseed': rng.getrandbits(32), 'xmin': xmin, 'xmax': xmax, 'jump': jump, 'jkind': jm, 'mmkind': mm,
                    'ydtype': ydtype, 'ivdtype': ivdtype,
                    'maxiter': rng.choice([None, None, 0, 3, 20]), 'via': rng.choice(['xy2traceset', 'TraceSet']),
                    'defaults': rng.random() < 0.5, 'minmax_int': rng.random() < 0.5,
                    'layouts': {k: rng.choice(LAYOUTS) for k in ('xfit', 'yfit', 'ivfit', 'maskfit', 'eval1', 'eval2', 'eval3')}}
        return None

    def gen_table(self, rng, g, i, deep, grid):
        func = FUNCS[i % 4]
        fmt = rng.choice(['D', 'D', 'E'])
        nT = rng.randint(1, 6)
        nc = rng.randint(2 if func == 'chebyshev_split' else 1, 8)
        near = None
        if grid:
            xmin = rng.choice([0.0, 0.0, 0.5, -3.0, float(rng.randint(-100, 3000)), round(rng.uniform(-100, 3000), 3)])
            k = rng.choice([1, 2, 7, rng.randint(1, 4095 if deep else 700)])
            near = rng.choice(['exact', 'exact', 'below', 'above', 'frac', 'frac'])
            d = 10.0 ** rng.uniform(-12, -3)
            xmax = {'exact': xmin + k, 'below': xmin + k - d, 'above': xmin + k + d,
                    'frac': xmin + k + rng.uniform(0.01, 0.99)}[near]
        elif fmt == 'E':
            xmin = rng.choice([0.0, 0.0, float(rng.randint(-100, 100)), rng.uniform(-100, 100)])
            xmax = xmin + rng.choice([float(rng.randint(50, 600)), rng.uniform(50, 600), 2047.0 if deep else 511.0])
        else:
            xmin = rng.choice([0.0, 0.0, float(rng.randint(-100, 100)), rng.uniform(-100, 3000), 1000.0, 3500.0, 1e5])
            xmax = xmin + rng.choice([float(rng.randint(2, 600)), rng.uniform(2, 600), 2047.0 if deep else 511.0])
        if fmt == 'E':
            xmin, xmax = float(np.float32(xmin)), float(np.float32(xmax))
        if not xmax - xmin >= 1.0:
            xmax = xmin + 1.0
        amp = 10.0 ** rng.uniform(-1, 3)
        coeff = g.normal(size=(nT, nc)) * amp * (0.3 ** np.arange(nc) if rng.random() < 0.5 else 1.0)
        if rng.random() < 0.2:
            coeff[g.uniform(size=coeff.shape) < 0.3] = 0.0
        if fmt == 'E':
            coeff = coeff.astype(np.float32)
        jump = None
        jm = rng.choice(['none', 'inside', 'inside', 'below', 'above', 'partial', 'lo_zero', 'hi_zero', 'hi_last', 'val_zero',
                         'val_tiny'])
        if jm != 'none':
            rng_ = xmax - xmin
            w = rng.uniform(0.3, max(0.4, 0.3 * rng_))
            val = rng.choice([-1, 1]) * rng.uniform(0.1, 3.0)
            if jm == 'val_zero':
                val = 0.0
            elif jm == 'val_tiny':
                val = rng.choice([-1, 1]) * 10.0 ** rng.uniform(-9, -4)
            lo_ = {'below': xmin - w - rng.uniform(1, 50), 'above': xmax + rng.uniform(1, 50), 'partial': xmin - w / 2,
                   'lo_zero': 0.0, 'hi_zero': -w, 'hi_last': xmax - w}.get(jm, rng.uniform(xmin, max(xmin, xmax - w)))
            lo32 = float(np.float32(lo_))
            hi32 = float(np.float32(lo_ + w))
            if jm == 'hi_zero':
                hi32 = 0.0
            elif jm == 'hi_last':
                hi32 = float(np.float32(xmax))
            if hi32 > lo32:
                jump = [lo32, hi32, float(np.float32(val))]
        case = {'kind': 'grid' if grid else 'tset_table', 'func': func, 'fmt': fmt, 'xmin': xmin, 'xmax': xmax,
                'coeff': [_lst(r) for r in coeff], 'jump': jump, 'jkind': jm, 'jfmt': rng.choice(['E', 'E', 'D']), 'near': near}
        if not grid:
            nx = rng.randint(1, 60)
            xd = 'f4' if rng.random() < 0.25 else 'f8'
            xp = g.uniform(xmin, xmax, (nT, nx))
            xp[g.uniform(size=xp.shape) < 0.05] = xmin
            xp[g.uniform(size=xp.shape) < 0.05] = xmax
            mid = 0.5 * (xmin + xmax)
            # near the step of the split basis / the centre: relative offsets 1e-6..1e-1 of the half range, both signs
            sel = g.uniform(size=xp.shape) < 0.15
            xp[sel] = (mid + g.choice([-1.0, 1.0], xp.shape) * 10.0 ** g.uniform(-6, -1, xp.shape) * 0.5 * (xmax - xmin))[sel]
            if jump is not None:
                sel = g.uniform(size=xp.shape) < 0.2
                xp[sel] = g.uniform(jump[0] - 1, jump[1] + 1, xp.shape)[sel]      # around / inside the jump window
                xp[g.uniform(size=xp.shape) < 0.03] = jump[0]
                xp[g.uniform(size=xp.shape) < 0.03] = jump[1]
                # a hair beside the window edges (a tolerance test instead of a comparison would move them)
                for edge in (jump[0], jump[1]):
                    sel = g.uniform(size=xp.shape) < 0.03
                    xp[sel] = (edge + g.choice([-1.0, 1.0], xp.shape) * 10.0 ** g.uniform(-12, -3, xp.shape) * max(1.0, abs(edge)))[sel]
            # a hair inside / outside xmin and xmax
            for edge in (xmin, xmax):
                sel = g.uniform(size=xp.shape) < 0.03
                xp[sel] = (edge + g.choice([-1.0, 1.0], xp.shape) * 10.0 ** g.uniform(-12, -3, xp.shape) * max(1.0, abs(edge)))[sel]
            rowmode = rng.choice(['unrelated', 'unrelated', 'near', 'near', 'near_mixed', 'neargrid'])
            if rowmode == 'neargrid':
                # the default grid itself (or a hair beside it) given explicitly: "is this the default grid?" must not matter
                ncol = int(xmax - xmin + 1)
                if ncol <= 400:
                    xp = near_rows(rng, g, xmin + np.arange(ncol), nT, False)
                else:
                    rowmode = 'near'
            if rowmode in ('near', 'near_mixed'):
                xp = near_rows(rng, g, xp[0], nT, rowmode == 'near_mixed')
            case['rowmode'] = rowmode
            case['xpos'] = [_lst(r) for r in xp.astype(DT[xd])]
            case['xdtype'] = xd
            case['layouts'] = {k: rng.choice(LAYOUTS) for k in ('eval1', 'eval2', 'eval3')}
        return case

    # ------------------------------------------------------------------ run
    def run(self, case, out):
        k = case['kind']
        if k == 'basis':
            self.run_basis(case, out)
        elif k == 'basis_scalar':
            self.run_scalar(case, out)
        elif k == 'basis_int':
            self.run_int(case, out)
        elif k in ('fit', 'fit_exact', 'fit_f32'):
            self.run_fit(case, out)
        elif k == 'tset_fit':
            self.run_tset_fit(case, out)
        elif k in ('tset_table', 'grid'):
            self.run_table(case, out)
        else:
            raise KeyError(k)

    # -- bases
    def _compare_basis(self, out, fn, m, got, xref, eps, power_form, clause, lowprec=False, **detail):
        ref = R.basis(fn, xref, m)
        if not out.expect(isinstance(got, np.ndarray) and got.shape == ref.shape, clause,
                          'shape %r, expected %r' % (getattr(got, 'shape', None), ref.shape), **detail):
            return False
        ok = True
        worst = 0.0
        for k in range(m):
            tol = R.basis_tol_lowprec(k - 1 if (R.CANON[fn] == 'chebyshev_split' and k > 1) else k, eps) if lowprec \
                else R.basis_tol(fn, k, eps, power_form)
            dev = float(np.abs(got[k].astype(np.float64) - ref[k]).max()) if ref.shape[1] else 0.0
            worst = max(worst, dev / tol)
            if not out.expect(dev <= tol, clause, 'row %d of %s(x, %d) deviates from the textbook %s by %.3g (tolerance %.3g)'
                              % (k, fn, m, fn, dev, tol), row=k, got=got[k], expected=ref[k], **detail):
                ok = False
                break
        out.info['worst_dev_over_tol'] = max(out.info.get('worst_dev_over_tol', 0.0), worst)
        out.count('basis_rows_checked', m)
        return ok

    def run_basis(self, case, out):
        fn, m, dt = case['fn'], case['m'], case['dtype']
        x = np.array(case['x'], dtype=DT[dt])
        got = self.basis_func(fn)(x.copy(), m)
        self._compare_basis(out, fn, m, got, x, EPS[dt], dt == 'f8', 'basis' if dt == 'f8' else 'basis-low-precision',
                            lowprec=dt != 'f8', x=x, dtype=dt)
        if dt == 'f4':
            out.count('basis_rows_float32', m)
        if dt != 'f8' and m >= 9:
            out.count('basis_lowprec_high_order_rows', m - 8)
            out.count('basis_lowprec_high_order_' + R.CANON[fn])
        if dt == 'f2':
            out.count('basis_rows_float16', m)
        if np.any(np.abs(x) == 1):
            out.count('basis_abscissa_at_pm1')
        if isinstance(got, np.ndarray) and not out.fails:
            got0 = got.copy()
            xin = x.copy()
            got2 = self.basis_func(fn)(xin, m)
            no_alias(out, 'write-through', [('two basis evaluations', got, got2), ('the basis and its abscissae', got2, xin)])
            scribble(got)
            scribble(got2)
            out.expect(np.array_equal(self.basis_func(fn)(x.copy(), m), got0), 'write-through',
                       'basis changed after the caller wrote into the arrays of earlier calls')
            out.count('writethrough_basis')
        out.nontrivial = m >= 3 and x.size >= 1

    def run_scalar(self, case, out):
        fn, m, st = case['fn'], case['m'], case['stype']
        v = case['x']
        x = {'pyfloat': float, 'pyint': int, 'np64': np.float64, 'np32': np.float32, 'arr0d': np.array}[st](v)
        got = self.basis_func(fn)(x, m)
        eps = R.EPS32 if st == 'np32' else R.EPS64
        self._compare_basis(out, fn, m, got, float(v), eps, st != 'np32', 'basis-scalar', lowprec=st == 'np32', x=v, stype=st)
        out.count('scalar_abscissae')
        out.count('scalar_' + st)
        out.nontrivial = m >= 3

    def run_int(self, case, out):
        fn, m, it = case['fn'], case['m'], case['itype']
        if it.endswith('scalar'):
            x = {'i8scalar': np.int64, 'i4scalar': np.int32}[it](case['x'][0])
        else:
            x = np.array(case['x'], dtype={'i8': np.int64, 'i4': np.int32, 'i2': np.int16}[it])
        got = self.basis_func(fn)(x, m)
        self._compare_basis(out, fn, m, got, np.array(case['x'], dtype=np.float64), R.EPS64, True, 'basis-integer-abscissae',
                            x=case['x'], itype=it)
        out.count('int_abscissae', len(case['x']))
        out.nontrivial = True

    # -- func_fit
    def _call_fit(self, case, x, y, iv, ia, ans, inf):
        kw = {'function_name': case['fn']}
        if iv is not None:
            kw['invvar'] = iv
        if ia is not None:
            kw['ia'] = ia
        if ans is not None:
            kw['inputans'] = ans
        if inf is not None:
            kw['inputfunc'] = inf
        return self.T.func_fit(x, y, case['nc'], **kw)

    def run_fit(self, case, out):
        dt = case['dtype']
        D = DT[dt]
        eps = EPS[dt]
        nc = case['nc']
        fnc = R.CANON[case['fn']]
        x = np.array(case['x'], dtype=D)
        y = np.array(case['y'], dtype=D)
        iv = None if case['iv'] is None else np.array(case['iv'], dtype=D)
        ia = None if case['ia'] is None else np.array(case['ia'], dtype=bool)
        ans = None if case['ans'] is None else np.array(case['ans'], dtype=D)
        inf = None if case['inputfunc'] is None else np.array(case['inputfunc'], dtype=D)
        vl = case.get('vlayout') or ('strided' if case.get('strided') else 'C')

        def view(a):
            # hostile memory layout: strided / reversed view of another buffer, read-only array
            return None if a is None else relayout(a, vl)
        out.count('fit_args_layout_' + vl)
        args = [view(a) for a in (x, y, iv, ia, ans, inf)]
        res, yfit = self._call_fit(case, *args)
        # inputs must not be modified
        for name, a, b in zip(('x', 'y', 'invvar', 'ia', 'inputans', 'inputfunc'), (x, y, iv, ia, ans, inf), args):
            if a is not None and not np.array_equal(a, b):
                out.fail('fit-inputs-unchanged', 'func_fit modified its argument %s' % name)
        if not out.expect(isinstance(res, np.ndarray) and res.shape == (nc,) and isinstance(yfit, np.ndarray)
                          and yfit.shape == x.shape, 'fit-shape', 'res %r yfit %r' % (getattr(res, 'shape', None),
                                                                                   getattr(yfit, 'shape', None))):
            return
        if not out.expect(np.isfinite(res).all() and np.isfinite(yfit).all(), 'fit-finite', 'non-finite result',
                          res=res):
            return
        free = np.ones(nc, dtype=bool) if ia is None else ia
        w = np.ones(x.size) if iv is None else iv.astype(np.float64)
        fixed_vals = np.zeros(nc) if ans is None else ans.astype(np.float64)
        B = R.basis(fnc, x, nc)
        if inf is not None:
            B = B * inf.astype(np.float64)
            out.count('fit_inputfunc')
        ref = R.wlsq(B, y, w, free, fixed_vals)
        c = ref['coeff']
        r64 = res.astype(np.float64)
        # fixed coefficients exactly as prescribed
        if (~free).any():
            want = np.zeros(nc, dtype=D) if ans is None else ans
            out.expect(np.array_equal(res[~free], want[~free]), 'fit-fixed-exact',
                       'fixed coefficients %r returned as %r' % (want[~free].tolist(), res[~free].tolist()), ia=free)
            out.count('fit_fixed_exact')
            if ans is None:
                out.count('fit_fixed_default_zero')
        nfree = int(free.sum())
        if nfree == 1:
            out.count('fit_single_free_parameter')
        if iv is None:
            out.count('fit_unit_weight_default')
        if dt == 'f4':
            out.count('fit_float32')
        dB = max(R.basis_tol(fnc, k, eps, dt == 'f8') for k in range(nc)) / 100.0
        sc = float(np.linalg.norm(c[free])) + (ref['bnorm'] / ref['smax'] if ref['smax'] > 0 else 0.0)
        if nfree:
            # normal equations satisfied: B_free W (y - fixed part - B_free c) = 0
            A = ref['A']
            grad = A.T @ (ref['b'] - A @ r64[free])
            gs = ref['smax'] * (ref['smax'] * float(np.linalg.norm(r64[free])) + ref['bnorm'])
            rel = float(np.linalg.norm(grad)) / gs if gs > 0 else 0.0
            out.expect(rel <= GRAD_TOL[dt], 'fit-weighted-normal-equations',
                       'weighted residual is not orthogonal to the free basis functions: |B W r| / scale = %.3g '
                       '(tolerance %.3g)' % (rel, GRAD_TOL[dt]), res=res, lstsq=c, condition=ref['cond'])
            out.count('fit_gradient_checked')
            out.info['grad_rel'] = rel
            reltol = K_COEFF[dt] * eps * ref['cond'] ** 2 + 100.0 * ref['cond'] * dB
            if reltol <= COEFF_DECIDABLE[dt]:
                dev = float(np.abs(r64 - c)[free].max())
                out.expect(dev <= reltol * sc, 'fit-coefficients',
                           'free coefficients differ from dense weighted lstsq by %.3g (tolerance %.3g, cond %.3g)'
                           % (dev, reltol * sc, ref['cond']), res=res, lstsq=c)
                out.count('fit_coeff_compared')
                out.info['coeff_dev_over_tol'] = dev / (reltol * sc) if sc > 0 else 0.0
                if 'ctrue' in case:
                    ct = np.array(case['ctrue'])
                    dev = float(np.abs(r64 - ct).max())
                    out.expect(dev <= reltol * sc, 'fit-exact-recovery',
                               'exact combination of the basis not recovered: max deviation %.3g (tolerance %.3g)'
                               % (dev, reltol * sc), res=res, truth=ct)
                    out.count('exact_combinations_recovered')
                    if reltol <= 1e-9:
                        out.count('exact_recovered_to_1e-9')
            else:
                out.undecide()
        # yfit is the returned model evaluated at every x (including zero-weight points)
        model = r64 @ B
        mscale = np.abs(r64) @ np.abs(B)
        bad = np.abs(yfit.astype(np.float64) - model) > YFIT_TOL[dt] * mscale + 1e-300
        out.expect(not bad.any(), 'fit-yfit', 'yfit differs from basis @ coefficients at %d points' % int(bad.sum()),
                   yfit=yfit, model=model)
        # zero-weight points have no influence: move them, change their y hugely, refit
        zero = w == 0
        if zero.any():
            p = np.random.default_rng(case['pseed'])
            x2, y2 = x.copy(), y.copy()
            big = 1e6 * max(1.0, float(np.abs(y).max()))
            y2[zero] = (y2[zero].astype(np.float64) + p.choice([-1.0, 1.0], int(zero.sum())) * big).astype(D)
            x2[zero] = p.uniform(-1, 1, int(zero.sum())).astype(D)
            res2, yfit2 = self._call_fit(case, view(x2), view(y2), view(iv), ia, view(ans), view(inf))
            out.expect(np.array_equal(res2, res), 'fit-zero-weight-no-influence',
                       'coefficients changed when only zero-weight points were changed: %r -> %r'
                       % (res.tolist(), res2.tolist()))
            out.expect(np.array_equal(yfit2[~zero], yfit[~zero]), 'fit-zero-weight-no-influence',
                       'yfit at weighted points changed when only zero-weight points were changed')
            out.count('zero_weight_perturbations', int(zero.sum()))
        # write-through: the caller overwrites the returned arrays and fits again
        res0, yfit0 = res.copy(), yfit.copy()
        args3 = [view(a) for a in (x, y, iv, ia, ans, inf)]
        res3, yfit3 = self._call_fit(case, *args3)
        no_alias(out, 'write-through', [('res of two calls', res, res3), ('yfit of two calls', yfit, yfit3)] +
                 [('a result and the argument %s' % nm, r_, a) for r_ in (res3, yfit3)
                  for nm, a in zip(('x', 'y', 'invvar', 'ia', 'inputans', 'inputfunc'), args3) if a is not None])
        scribble(res)
        scribble(yfit)
        scribble(res3)
        scribble(yfit3)
        res4, yfit4 = self._call_fit(case, *[view(a) for a in (x, y, iv, ia, ans, inf)])
        out.expect(np.array_equal(res4, res0) and np.array_equal(yfit4, yfit0), 'write-through',
                   'func_fit returns something else after the caller wrote into the arrays of earlier calls')
        out.count('writethrough_func_fit')
        out.info['cond'] = ref['cond']
        out.nontrivial = bool(zero.any() or (~free).any() or (iv is not None and len(np.unique(iv)) > 1))

    # -- trace sets
    def _eval_tol(self, func, coeff, x, xmin, xmax, jump, eps, power_form, jump_eps=0.0):
        """reference y, tolerance (per element), xnorm, basis for one trace.

        tolerance = sum_k |c_k| max(1,|B_k|) [ basis_tol_k * (1 + Rr) + 100*jump_eps*(2|val|/range)*k^2 ]:
        basis_tol_k already contains 100*eps*k^2, the effect of an eps-sized error of xnorm on a degree-k function;
        the normalisation amplifies input rounding by Rr = max|x|/range (plus the jump terms), and jump parameters
        stored in float32 (FITS E columns) make the jump fraction uncertain by jump_eps."""
        xn = R.xnorm(x, xmin, xmax, jump)
        B = R.basis(func, xn, coeff.size)
        c = coeff.astype(np.float64)
        yref = c @ B
        rng_ = xmax - xmin
        Rr = max(abs(xmin), abs(xmax)) / rng_
        tolk = np.array([R.basis_tol(func, k, eps, power_form) for k in range(coeff.size)])
        if jump is not None:
            Rr += abs(jump[2]) / rng_ + max(abs(jump[0]), abs(jump[1])) / rng_
        tolk = tolk * (1.0 + Rr)
        if jump is not None and jump_eps > eps:
            tolk = tolk + 100.0 * jump_eps * (2.0 * abs(jump[2]) / rng_) * np.maximum(np.arange(coeff.size) ** 2, 1.0)
        tol = (np.abs(c) * tolk) @ np.maximum(np.abs(B), 1.0) + 1e-300
        self._amp = 1.0 + Rr          # amplification of input rounding by the normalisation (scales the H(x) band)
        return yref, tol, xn, B

    def _make_table(self, case):
        fits = self.fits
        fmt = case['fmt']
        coeff = np.array(case['coeff'], dtype=np.float64 if fmt == 'D' else np.float32)
        nT, nc = coeff.shape
        func = case['func']
        cols = [fits.Column(name='FUNC', format='%dA' % max(8, len(func)), array=np.array([func])),
                fits.Column(name='XMIN', format=fmt, array=np.array([case['xmin']])),
                fits.Column(name='XMAX', format=fmt, array=np.array([case['xmax']])),
                fits.Column(name='COEFF', format='%d%s' % (nT * nc, fmt), dim='(%d,%d)' % (nc, nT),
                            array=coeff.reshape(1, nT, nc))]
        if case['jump'] is not None:
            for n, v in zip(('XJUMPLO', 'XJUMPHI', 'XJUMPVAL'), case['jump']):
                cols.append(fits.Column(name=n, format=case.get('jfmt', 'E'), array=np.array([v])))
        return fits.BinTableHDU.from_columns(cols).data, coeff

    def _check_eval(self, out, clause, func, coeff, xpos, ypos, xmin, xmax, jump, eps, power_form, band, jump_eps=0.0):
        """ypos (pydl) against the reference evaluation of coeff at xpos, every trace."""
        ok = True
        for t in range(coeff.shape[0]):
            yref, tol, xn, B = self._eval_tol(func, coeff[t], xpos[t], xmin, xmax, jump, eps, power_form, jump_eps)
            dec = np.ones(xn.shape, dtype=bool)
            if func == 'chebyshev_split':
                dec = np.abs(xn) >= band * self._amp
                out.undecide(int((~dec).sum()))
                out.count('table_split_step_decided', int((dec & (np.abs(xn) < 0.2)).sum()))
            dev = np.abs(ypos[t].astype(np.float64) - yref)
            bad = dec & ~(dev <= tol)
            if bad.any():
                j = int(np.argmax(np.where(bad, dev / tol, 0)))
                out.fail(clause, 'trace %d at x=%r: evaluated %r, reference sum_k c_k %s_k(xnorm) = %r (tolerance %.3g)'
                         % (t, float(xpos[t][j]), float(ypos[t][j]), func, float(yref[j]), float(tol[j])),
                         xnorm=float(xn[j]), coeff=coeff[t], xmin=xmin, xmax=xmax, jump=jump)
                ok = False
                break
            out.checks += 1
            out.info['eval_dev_over_tol'] = max(out.info.get('eval_dev_over_tol', 0.0), float((dev / tol)[dec].max()) if dec.any() else 0.0)
        return ok

    def run_tset_fit(self, case, out):
        T = self.T
        dt = case['dtype']
        D = DT[dt]
        eps = EPS[dt]
        func, nc = case['func'], case['nc']
        xpos = np.array(case['xpos'], dtype=D)
        YD = YDT.get(case.get('ydtype', 'same')) or D
        ypos = np.array(case['ypos'], dtype=YD)
        if YD is not D:
            out.count('tset_ypos_integer_dtype' if np.dtype(YD).kind in 'iu' else 'tset_ypos_float32_with_float64_xpos')
        nT, nx = xpos.shape
        kw = {'func': func, 'ncoeff': nc}
        if case.get('defaults'):                  # documented defaults: legendre, 3 coefficients
            if func == 'legendre':
                del kw['func']
            if nc == 3:
                del kw['ncoeff']
        iv = inmask = None
        if case['invvar'] is not None:
            iv = np.array(case['invvar'], dtype=np.float32 if case.get('ivdtype') == 'f4' else D)
            if case.get('ivdtype') == 'f4':
                out.count('tset_invvar_float32_with_float64_xpos')
            kw['invvar'] = iv.copy()
        if case['inmask'] is not None:
            inmask = np.array(case['inmask'], dtype=bool)
            md = case.get('mask_dtype') or 'bool'
            mdt = {'bool': bool, 'i1': np.int8, 'i2': np.int16, 'i4': np.int32, 'i8': np.int64, 'u1': np.uint8,
                   'u2': np.uint16, 'float': D}[md]
            kw['inmask'] = inmask.astype(mdt)          # 1 = good, 0 = rejected
            out.count('tset_inmask_used')
            out.count({'b': 'tset_inmask_bool', 'i': 'tset_inmask_signed_int', 'u': 'tset_inmask_unsigned_int',
                       'f': 'tset_inmask_float'}[md[0]])
        if case['xmin'] is not None:
            kw['xmin'], kw['xmax'] = case['xmin'], case['xmax']
            if case.get('minmax_int') and float(case['xmin']).is_integer() and float(case['xmax']).is_integer():
                kw['xmin'], kw['xmax'] = int(case['xmin']), int(case['xmax'])
        jump = case['jump']
        if jump is not None:
            kw['xjumplo'], kw['xjumphi'], kw['xjumpval'] = jump
        if case['maxiter'] is not None:
            kw['maxiter'] = case['maxiter']
        ctor = T.xy2traceset if case['via'] == 'xy2traceset' else T.TraceSet
        L = case.get('layouts') or {k: ('F' if case.get('layout') == 'F' else 'C') for k in ('xfit', 'yfit', 'ivfit', 'maskfit')}

        def lay(a, slot, count=True):
            kind = L.get(slot, 'C')
            if count and slot.startswith('eval'):
                out.count('xpos_layout_' + kind)
            return relayout(a, kind)
        for key, slot in (('invvar', 'ivfit'), ('inmask', 'maskfit')):
            if key in kw:
                kw[key] = lay(kw[key], slot)
        if any(L.get(k, 'C') != 'C' for k in ('xfit', 'yfit', 'ivfit', 'maskfit')):
            out.count('tset_fit_args_layout_not_C')
        given = {k: v.copy() for k, v in kw.items() if isinstance(v, np.ndarray)}
        tset = ctor(lay(xpos, 'xfit'), lay(ypos, 'yfit'), **kw)
        for k, v in given.items():
            out.expect(np.array_equal(kw[k], v) and kw[k].dtype == v.dtype, 'tset-inputs-unchanged',
                       'the constructor modified its argument %s' % k)
        x64 = xpos.astype(np.float64)
        xmin = float(x64.min()) if case['xmin'] is None else float(case['xmin'])
        xmax = float(x64.max()) if case['xmax'] is None else float(case['xmax'])
        out.expect(float(tset.xmin) == xmin and float(tset.xmax) == xmax and tset.func == func and
                   tset.nTrace == nT and tset.ncoeff == nc and tset.coeff.shape == (nT, nc) and
                   tset.yfit.shape == xpos.shape, 'tset-attributes',
                   'xmin/xmax/func/nTrace/ncoeff/coeff.shape = %r' % ((tset.xmin, tset.xmax, tset.func, tset.nTrace,
                                                                      tset.ncoeff, tset.coeff.shape),))
        out.expect(bool(tset.has_jump) == (jump is not None), 'tset-attributes', 'has_jump = %r' % tset.has_jump)
        # evaluate again at the same positions, through both entry points
        count_row_closeness(out, xpos)
        if case.get('mmkind') == 'hair':
            out.count('tset_explicit_limits_hair_beside_data')
        xe, ye = T.traceset2xy(tset, lay(xpos, 'eval1'))
        xe2, ye2 = tset.xy(lay(xpos, 'eval1', False))
        out.expect(np.array_equal(xe, xpos) and np.array_equal(xe2, xpos), 'tset-roundtrip',
                   'traceset2xy did not return the positions it was given')
        out.expect(ye.shape == xpos.shape and np.array_equal(ye, ye2), 'tset-roundtrip', 'traceset2xy and TraceSet.xy differ')
        coeff = np.asarray(tset.coeff)
        yfit = np.asarray(tset.yfit)
        rt_tol = 1e-12 if (dt == 'f8' and case.get('ydtype') != 'f4') else 200.0 * R.EPS32    # float32: coefficients, yfit and y each rounded to float32
        w = np.ones((nT, nx)) if iv is None else iv.astype(np.float64)
        if inmask is not None:
            w = w * inmask
        band = SPLIT_BAND[dt]
        all_ok = True
        for t in range(nT):
            yref, tol, xn, B = self._eval_tol(func, coeff[t], xpos[t], xmin, xmax, jump, eps, dt == 'f8')
            mscale = np.abs(coeff[t].astype(np.float64)) @ np.abs(B)
            dev = np.abs(ye[t].astype(np.float64) - yfit[t].astype(np.float64))
            bad = ~(dev <= rt_tol * mscale + 1e-300)
            out.info['roundtrip_dev_over_tol'] = max(out.info.get('roundtrip_dev_over_tol', 0.0),
                                                     float((dev / (rt_tol * mscale + 1e-300)).max()))
            if bad.any():
                j = int(np.argmax(dev))
                out.fail('tset-roundtrip', 'trace %d: traceset2xy gives %r at x=%r where the fit stored yfit=%r (scale %.3g)'
                         % (t, float(ye[t][j]), float(xpos[t][j]), float(yfit[t][j]), float(mscale[j])), coeff=coeff[t])
                all_ok = False
                break
            out.checks += 1
            # the evaluation is the textbook one: sum_k c_k basis_k(xnorm(x))
            dec = np.ones(nx, dtype=bool)
            if func == 'chebyshev_split':
                dec = np.abs(xn) >= band * self._amp
                out.undecide(int((~dec).sum()))
            dev = np.abs(ye[t].astype(np.float64) - yref)
            bad = dec & ~(dev <= tol)
            if bad.any():
                j = int(np.argmax(np.where(bad, dev / tol, 0)))
                out.fail('tset-evaluate', 'trace %d at x=%r: evaluated %r, reference sum_k c_k %s_k(xnorm) = %r (tolerance %.3g)'
                         % (t, float(xpos[t][j]), float(ye[t][j]), func, float(yref[j]), float(tol[j])),
                         coeff=coeff[t], xmin=xmin, xmax=xmax, jump=jump)
                all_ok = False
                break
            out.checks += 1
            # the stored coefficients are the weighted least-squares ones (reference normalisation and weights)
            if func == 'chebyshev_split' and (np.abs(xn[w[t] > 0]) < band * self._amp).any():
                out.undecide()
                continue
            ref = R.wlsq(B, ypos[t], w[t])
            c = ref['coeff']
            dB = max(R.basis_tol(func, k, eps, dt == 'f8') for k in range(nc)) / 100.0
            Rr = max(abs(xmin), abs(xmax)) / (xmax - xmin)
            # precision of the product y*invvar: float32 when both operands are at most single precision (numpy promotion)
            fp = 'f4' if (dt == 'f4' or (case.get('ivdtype') == 'f4' and case.get('ydtype') in ('f4', 'i2', 'u2'))) else 'f8'
            reltol = K_COEFF[fp] * EPS[fp] * ref['cond'] ** 2 + 100.0 * ref['cond'] * dB * (1.0 + Rr)
            if dt == 'f4':
                reltol += 100.0 * eps                      # coefficients stored in float32
            sc = float(np.linalg.norm(c)) + ref['bnorm'] / ref['smax']
            A = ref['A']
            c64 = coeff[t].astype(np.float64)
            grad = A.T @ (ref['b'] - A @ c64)
            gs = ref['smax'] * (ref['smax'] * float(np.linalg.norm(c64)) + ref['bnorm'])
            gtol = GRAD_TOL[fp] * (1.0 + Rr)
            rel = float(np.linalg.norm(grad)) / gs if gs > 0 else float(np.linalg.norm(grad))
            if not out.expect(rel <= gtol, 'tset-fit-normal-equations',
                              'trace %d: residual of the stored fit is not orthogonal to the basis under the weights '
                              'invvar*inmask: %.3g (tolerance %.3g)' % (t, rel, gtol), coeff=coeff[t], lstsq=c):
                all_ok = False
                break
            out.info['tset_grad_rel'] = max(out.info.get('tset_grad_rel', 0.0), rel / gtol)
            if reltol <= COEFF_DECIDABLE[fp]:
                dev = float(np.abs(c64 - c).max())
                if not out.expect(dev <= reltol * sc, 'tset-fit-coefficients',
                                  'trace %d: coefficients differ from dense weighted lstsq by %.3g (tolerance %.3g)'
                                  % (t, dev, reltol * sc), coeff=coeff[t], lstsq=c, condition=ref['cond']):
                    all_ok = False
                    break
                out.count('tset_fit_coeff_compared')
                out.info['tset_coeff_dev_over_tol'] = max(out.info.get('tset_coeff_dev_over_tol', 0.0), dev / (reltol * sc) if sc > 0 else 0.0)
            else:
                out.undecide()
        if all_ok:
            out.count('tset_roundtrip_jump' if jump is not None else 'tset_roundtrip_nojump', nT)
            if func == 'chebyshev_split':
                out.count('tset_roundtrip_split', nT)
            if dt == 'f4':
                out.count('tset_roundtrip_float32', nT)
            if jump is not None and xmin < jump[0] and jump[1] < xmax:
                out.count('tset_jump_window_inside')
            if jump is not None:
                if jump[0] == 0.0:
                    out.count('tset_jump_lo_exactly_zero')
                if jump[1] == 0.0:
                    out.count('tset_jump_hi_exactly_zero')
                if jump[1] == xmax:
                    out.count('tset_jump_hi_at_last_pixel')
                if jump[2] == 0.0:
                    out.count('tset_jump_val_zero')
                elif abs(jump[2]) < 1e-3:
                    out.count('tset_jump_val_tiny')
                if jump[2] < 0:
                    out.count('tset_jump_val_negative')
                if jump[1] <= xmin or jump[0] >= xmax:
                    out.count('tset_jump_window_outside')
            if case['xmin'] is not None and float(case['xmin']) == 0.0 and float(x64.min()) > 0:
                out.count('tset_xmin_explicit_zero')
        # masked (inmask == 0) and zero-weight (invvar == 0) points have no influence: change their y hugely, refit
        masked = w == 0
        if masked.any():
            p = np.random.default_rng(case.get('pseed', 0))
            big = 1e6 * max(1.0, float(np.abs(ypos.astype(np.float64)).max()))
            if np.dtype(YD).kind in 'iu':
                lim = np.iinfo(YD)
                y2 = ypos.copy()
                y2[masked] = np.where(p.random(int(masked.sum())) < 0.5, lim.min, lim.max).astype(YD)
                y2[masked & (y2 == ypos)] = lim.max // 2
            else:
                y2 = ypos.astype(np.float64)
                y2[masked] += p.choice([-1.0, 1.0], int(masked.sum())) * big
                y2 = y2.astype(YD)
            tset2 = ctor(lay(xpos, 'xfit'), lay(y2, 'yfit'), **kw)
            out.expect(np.array_equal(np.asarray(tset2.coeff), coeff), 'tset-masked-no-influence',
                       'coefficients changed when only masked / zero-weight points were changed (inmask dtype %s): '
                       'max change %.3g' % (case.get('mask_dtype'), float(np.abs(np.asarray(tset2.coeff, dtype=np.float64) -
                                                                                  coeff.astype(np.float64)).max())))
            out.expect(np.array_equal(np.asarray(tset2.yfit)[~masked], yfit[~masked]), 'tset-masked-no-influence',
                       'yfit at unmasked points changed when only masked / zero-weight points were changed')
            out.count('tset_masked_points_perturbed', int(masked.sum()))
            if inmask is not None and (~inmask).any():
                out.count('tset_masked_by_inmask', int((~inmask).sum()))
            if iv is not None and (iv == 0).any():
                out.count('tset_masked_by_zero_invvar', int((iv == 0).sum()))
            if case.get('outliers'):
                out.count('tset_masked_outliers')
        # default grid of the fitted trace set
        self._check_grid(out, tset, func, coeff, xmin, xmax, jump, R.EPS32 if (dt == 'f4' and case['xmin'] is None) else R.EPS64,
                         band=SPLIT_BAND['f8'])
        # the same object evaluated again (after the default grid, with the other jump setting in between): nothing is stale
        if jump is not None:
            xi, yi = tset.xy(lay(xpos, 'eval2'), ignore_jump=True)
            self._check_eval(out, 'tset-evaluate-ignore-jump', func, coeff, xpos, yi, xmin, xmax, None, eps, dt == 'f8', band)
        xr, yr = T.traceset2xy(tset, lay(xpos, 'eval1', False))
        out.expect(np.array_equal(yr, ye), 'repeat-evaluation',
                   'second traceset2xy(tset, xpos) on the same object differs from the first')
        # the same positions in another memory layout: against the reference (a vectorised evaluation may round differently)
        xo, yo = T.traceset2xy(tset, lay(xpos, 'eval2'))
        out.expect(np.array_equal(xo, xpos) and yo.shape == xpos.shape, 'tset-evaluate', 'positions not returned as given')
        self._check_eval(out, 'tset-evaluate-layout', func, coeff, xpos, yo, xmin, xmax, jump, eps, dt == 'f8', band)
        half = xpos[:, ::-2].copy()
        xh, yh = tset.xy(lay(half, 'eval3'))
        # (a different shape may take another BLAS summation order, so this one is compared with the reference, not bitwise)
        out.expect(yh.shape == half.shape, 'repeat-evaluation', 'y of shape %r for xpos of shape %r' % (yh.shape, half.shape))
        self._check_eval(out, 'repeat-evaluation', func, coeff, half, yh, xmin, xmax, jump, eps, dt == 'f8', band)
        out.expect(np.array_equal(np.asarray(tset.coeff), coeff) and float(tset.xmin) == xmin and float(tset.xmax) == xmax,
                   'repeat-evaluation', 'evaluating changed the trace set (coeff / xmin / xmax)')
        out.count('repeat_eval_same_object')
        # live objects / write-through: a second object from fresh copies of the same arguments; then the caller writes into
        # its own input arrays, into everything the first object holds and into everything the calls returned
        coeff0, yfit0, ye0 = coeff.copy(), yfit.copy(), ye.copy()
        kwB = {k: (relayout(v, 'C') if isinstance(v, np.ndarray) else v) for k, v in kw.items()}
        for key, slot in (('invvar', 'ivfit'), ('inmask', 'maskfit')):
            if key in kwB:
                kwB[key] = lay(kwB[key], slot)
        XB, YB = lay(xpos, 'xfit'), lay(ypos, 'yfit')
        tsetB = ctor(XB, YB, **kwB)
        no_alias(out, 'write-through', [('coeff of two trace sets', tset.coeff, tsetB.coeff), ('yfit of two trace sets', tset.yfit, tsetB.yfit),
                                        ('yfit and the given ypos', tsetB.yfit, YB), ('yfit and the given xpos', tsetB.yfit, XB),
                                        ('coeff and the given xpos', tsetB.coeff, XB), ('two evaluations', ye, yr),
                                        ('an evaluation and yfit', ye, tset.yfit), ('an evaluation and coeff', ye, tset.coeff)])
        n_w = sum(scribble(a) for a in [XB, YB] + [v for v in kwB.values() if isinstance(v, np.ndarray)])
        n_w += sum(scribble(a) for a in (tset.coeff, tset.yfit, tset.outmask, ye, yr, yo, yh))
        out.expect(np.array_equal(np.asarray(tsetB.coeff), coeff0) and np.array_equal(np.asarray(tsetB.yfit), yfit0), 'write-through',
                   'a second trace set built from the same arguments changed (or differs) after the caller wrote into its '
                   'own input arrays and into the first trace set')
        xb, yb = T.traceset2xy(tsetB, lay(xpos, 'eval1', False))
        out.expect(np.array_equal(yb, ye0), 'write-through', 'evaluation of the second trace set differs from the first one\'s')
        gB = T.traceset2xy(tsetB)
        scribble(gB[0])
        scribble(gB[1])
        self._check_grid(out, tsetB, func, coeff0, xmin, xmax, jump, R.EPS32 if (dt == 'f4' and case['xmin'] is None) else R.EPS64,
                         band=SPLIT_BAND['f8'])
        out.count('writethrough_tset_objects', n_w)
        out.nontrivial = nc >= 2

    def _check_grid(self, out, tset, func, coeff, xmin, xmax, jump, eps_range, band, ignore_jump=False, jump_eps=0.0):
        nT = coeff.shape[0]
        n, decided = R.grid_columns(xmin, xmax, eps_range)
        xg, yg = self.T.traceset2xy(tset, None, True) if ignore_jump else self.T.traceset2xy(tset)
        if not decided:
            out.undecide()
            out.count('grid_undecided')
            if xg.shape not in ((nT, n), (nT, n - 1), (nT, n + 1)):
                out.fail('grid-shape', 'default grid has shape %r, expected (%d, %d+-1)' % (xg.shape, nT, n))
                return
            n = xg.shape[1]
        else:
            if not out.expect(xg.shape == (nT, n) and yg.shape == (nT, n), 'grid-shape',
                              'default grid has shape %r, expected (%d, %d) for xmin=%r xmax=%r' % (xg.shape, nT, n, xmin, xmax)):
                return
            out.expect(int(tset.nx) == n, 'grid-shape', 'tset.nx = %r, expected %d' % (tset.nx, n))
            out.count('grid_decided')
        want = xmin + np.arange(n, dtype=np.float64)
        out.expect(all(np.array_equal(xg[t].astype(np.float64), want) for t in range(nT)), 'grid-values',
                   'default grid is not xmin, xmin+1, ...: first row starts %r' % (xg[0][:3].tolist(),), xmin=xmin, xmax=xmax)
        if decided:
            out.expect(want[-1] <= xmax and want[-1] + 1 > xmax - 64 * eps_range * max(1.0, abs(xmax)), 'grid-values',
                       'grid ends at %r for xmax=%r' % (float(want[-1]), xmax))
        # xmin/xmax held in float32 (eps_range) => xmid and the range are float32 quantities
        f64 = xg.dtype == np.float64 and eps_range == R.EPS64
        self._check_eval(out, 'grid-evaluate', func, coeff, np.tile(want, (nT, 1)), yg, xmin, xmax,
                         None if ignore_jump else jump, R.EPS64 if f64 else R.EPS32, f64,
                         band if f64 else SPLIT_BAND['f4'], jump_eps)
        # write-through: the caller recentres / overwrites the arrays it got, then asks again
        yg0 = yg.copy()
        if scribble(xg) and scribble(yg):
            xg2, yg2 = self.T.traceset2xy(tset, None, True) if ignore_jump else self.T.traceset2xy(tset)
            out.expect(xg2.shape == (nT, n) and all(np.array_equal(xg2[t].astype(np.float64), want) for t in range(nT)),
                       'write-through', 'default grid changed after the caller wrote into the arrays of an earlier call: '
                       'first row starts %r, expected %r' % (xg2[0][:3].tolist(), want[:3].tolist()))
            out.expect(yg2.shape == yg0.shape and np.array_equal(yg2, yg0), 'write-through',
                       'default-grid evaluation changed after the caller wrote into the arrays of an earlier call')
            no_alias(out, 'write-through', [('x of two default-grid calls', xg, xg2), ('y of two default-grid calls', yg, yg2)])
            out.count('writethrough_default_grid')
        else:
            out.count('returned_array_readonly')

    def run_table(self, case, out):
        T = self.T
        rec, coeff = self._make_table(case)
        tset = T.TraceSet(rec)
        func = case['func']
        xmin, xmax, jump = case['xmin'], case['xmax'], case['jump']
        nT, nc = coeff.shape
        out.expect(tset.nTrace == nT and tset.ncoeff == nc and float(tset.xmin) == xmin and float(tset.xmax) == xmax and
                   bool(tset.has_jump) == (jump is not None) and str(tset.func) == func, 'table-attributes',
                   'nTrace/ncoeff/xmin/xmax/has_jump/func = %r' % ((tset.nTrace, tset.ncoeff, tset.xmin, tset.xmax,
                                                                   tset.has_jump, tset.func),))
        eps_range = R.EPS64 if case['fmt'] == 'D' else R.EPS32
        jeps = R.EPS32 if case.get('jfmt', 'E') == 'E' else R.EPS64
        if jump is not None and (jump[0] == 0.0 or jump[1] == 0.0 or jump[2] == 0.0):
            out.count('table_jump_falsy_value')
        self._check_grid(out, tset, func, coeff, xmin, xmax, jump, eps_range, SPLIT_BAND['f8'], jump_eps=jeps)
        if jump is not None:
            self._check_grid(out, tset, func, coeff, xmin, xmax, jump, eps_range, SPLIT_BAND['f8'], ignore_jump=True)
            if not out.fails:
                out.count('table_eval_ignore_jump')
        if case['kind'] == 'grid':
            tsetB = T.TraceSet(self._make_table(case)[0])          # same geometry, after the caller wrote into A's results
            self._check_grid(out, tsetB, func, coeff, xmin, xmax, jump, eps_range, SPLIT_BAND['f8'], jump_eps=jeps)
            out.count('writethrough_fresh_object')
            near = case['near']
            out.count({'exact': 'grid_exact_integer_range', 'frac': 'grid_fractional_range'}.get(near, 'grid_near_integer_range'))
        else:
            xd = case['xdtype']
            xpos = np.array(case['xpos'], dtype=DT[xd])
            L = case.get('layouts') or {}

            def lay(a, slot, count=True):
                kind = L.get(slot, 'C')
                if count:
                    out.count('xpos_layout_' + kind)
                return relayout(a, kind)
            count_row_closeness(out, xpos)
            if case.get('rowmode') == 'neargrid':
                out.count('xpos_explicit_default_grid_or_hair_beside')
            xe, ye = T.traceset2xy(tset, lay(xpos, 'eval1'))
            out.expect(np.array_equal(xe, xpos) and ye.shape == xpos.shape, 'table-evaluate',
                       'traceset2xy did not return the given positions / a y of the same shape')
            if case['fmt'] == 'E':
                xd = 'f4'                     # float32 xmin/xmax: xmid and range are float32 quantities
            ok = self._check_eval(out, 'table-evaluate', func, coeff, xpos, ye, xmin, xmax, jump, EPS[xd], xd == 'f8',
                                  SPLIT_BAND[xd], jeps)
            if jump is not None:
                xi, yi = tset.xy(lay(xpos, 'eval2'), ignore_jump=True)
                ok = self._check_eval(out, 'table-evaluate-ignore-jump', func, coeff, xpos, yi, xmin, xmax, None, EPS[xd],
                                      xd == 'f8', SPLIT_BAND[xd]) and ok
            # repeated calls on the same object in another order: default grid with the jump again (after ignore_jump),
            # a differently shaped xpos, the first xpos again - each against the reference, the repeats bit-identical
            self._check_grid(out, tset, func, coeff, xmin, xmax, jump, eps_range, SPLIT_BAND['f8'], jump_eps=jeps)
            if jump is not None:
                self._check_grid(out, tset, func, coeff, xmin, xmax, jump, eps_range, SPLIT_BAND['f8'], ignore_jump=True)
                out.count('repeat_eval_alternating_jump')
            sub = xpos[:, ::-1][:, :max(1, xpos.shape[1] // 2)].copy()
            xs, ys = tset.xy(lay(sub, 'eval3'))
            ok = self._check_eval(out, 'repeat-evaluation', func, coeff, sub, ys, xmin, xmax, jump, EPS[xd], xd == 'f8',
                                  SPLIT_BAND[xd], jeps) and ok
            xo, yo = T.traceset2xy(tset, lay(xpos, 'eval2'))
            ok = self._check_eval(out, 'table-evaluate-layout', func, coeff, xpos, yo, xmin, xmax, jump, EPS[xd], xd == 'f8',
                                  SPLIT_BAND[xd], jeps) and ok
            xr, yr = T.traceset2xy(tset, lay(xpos, 'eval1', False))
            out.expect(np.array_equal(yr, ye), 'repeat-evaluation',
                       'second traceset2xy(tset, xpos) on the same object differs from the first')
            out.expect(np.array_equal(np.asarray(tset.coeff, dtype=np.float64), coeff.astype(np.float64)) and
                       float(tset.xmin) == xmin and float(tset.xmax) == xmax, 'repeat-evaluation',
                       'evaluating changed the trace set (coeff / xmin / xmax)')
            out.count('repeat_eval_same_object')
            # write-through on explicit positions, and a fresh object of the same table
            ye0 = ye.copy()
            no_alias(out, 'write-through', [('two evaluations', ye, yr), ('an evaluation and coeff', ye, tset.coeff)])
            nw = sum(scribble(a) for a in (ye, yr, yo, ys, xe, xr))
            x3, y3 = T.traceset2xy(tset, lay(xpos, 'eval1', False))
            out.expect(np.array_equal(y3, ye0), 'write-through',
                       'evaluation at the same positions changed after the caller wrote into arrays of earlier calls')
            tsetB = T.TraceSet(self._make_table(case)[0])
            x4, y4 = T.traceset2xy(tsetB, lay(xpos, 'eval1', False))
            out.expect(np.array_equal(y4, ye0), 'write-through', 'a fresh trace set of the same table evaluates differently')
            self._check_grid(out, tsetB, func, coeff, xmin, xmax, jump, eps_range, SPLIT_BAND['f8'], jump_eps=jeps)
            out.count('writethrough_explicit_xpos', nw)
            out.count('writethrough_fresh_object')
            if ok:
                out.count('table_eval_jump' if jump is not None else 'table_eval_nojump', nT)
                if jump is not None:
                    x64 = xpos.astype(np.float64)
                    out.count('table_points_inside_jump_window', int(((x64 > jump[0]) & (x64 < jump[1])).sum()))
                    out.count('table_points_beyond_jump_window', int((x64 >= jump[1]).sum()))
        out.nontrivial = nc >= 2

    # ------------------------------------------------------------------ evidence
    def summarise(self, case):
        def cut(v):
            if isinstance(v, list) and len(v) > 6:
                return [cut(e) for e in v[:6]] + ['... %d more' % (len(v) - 6)]
            if isinstance(v, list):
                return [cut(e) for e in v]
            return v
        return {k: cut(v) for k, v in case.items()}


CHECK = C13()
