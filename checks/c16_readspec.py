"""C16 - readspec returns each requested spectrum in request order, unshifted; spec_append only pads with zeros.

Events : readspec(plate, mjd=, fiber=, [topdir= run2d= run1d= | path=]) on synthetic survey trees written by
         vlib/gen/survey_tree.py (spPlate with 7 HDUs + COEFF0/COEFF1, spZbest, photoPlate, platelist), every
         spec_append(a, b, pixshift) call made inside readspec (contract wrapper) and direct spec_append calls.
Oracle : unique-id principle - every stored number encodes (file, HDU, fibre, pixel); the expected return value is
         rebuilt from the request alone (numpy indexing of nothing: pure arithmetic on the id code) and compared
         cell by cell; spec_append against a ten-line placement model.
"""
import os
import shutil
import tempfile
import functools
import numpy as np
from vlib.harness import Check
from vlib.gen import survey_tree as T

IMAGES = ('flux', 'invvar', 'andmask', 'ormask', 'disp', 'sky')
LOGLAM_TOL = 1e-11        # |COEFF0 + COEFF1*pixel| < 5, double rounding of two operations < 2e-15; one pixel is >= 1e-4
VEC_DTYPES = ('i2', 'i4', 'i8', 'u2', 'u4', 'u8')
SCALAR_FORMS = ('int', 'np:i2', 'np:i4', 'np:i8', 'np:u2', 'np:u4')
DECOY_BASE = 16


def mat(v, form):
    """materialise a stored request component"""
    if v is None:
        return None
    if form == 'int':
        return int(v)
    if form == 'list':
        return [int(x) for x in v]
    kind, dt = form.split(':')
    if kind == 'np':
        return np.dtype(dt).type(v)
    return np.array(v, dtype=dt)


def vec_form(rng, allow_list=True, maxval=0, n=2):
    forms = ['array:' + d for d in VEC_DTYPES if not (d == 'i2' and maxval > 32767) and not (d == 'u2' and maxval > 65535)
             and not (d == 'u8' and n == 1)]      # single-element uint64: int32 + uint64 -> float64, outside the domain (report, g)
    if allow_list:
        forms += ['list', 'list']
    return rng.choice(forms)


def scalar_form(rng, maxval=0):
    return rng.choice([f for f in SCALAR_FORMS if not (f == 'np:i2' and maxval > 32767)
                       and not (f == 'np:u2' and maxval > 65535)])


# ----------------------------------------------------------------------------------------------
# spec_append reference
# ----------------------------------------------------------------------------------------------
def append_model(a, b, ps):
    o1, o2 = max(-ps, 0), max(ps, 0)
    r1, n1 = a.shape
    r2, n2 = b.shape
    ref = np.zeros((r1 + r2, max(n1 + o1, n2 + o2)), dtype=np.result_type(a.dtype, b.dtype))
    ref[:r1, o1:o1 + n1] = a
    ref[r1:, o2:o2 + n2] = b
    return ref, o1, o2


def check_append(rec, out, where):
    a0, b0, ps, a, b, res = rec
    ps = int(ps)
    ref, o1, o2 = append_model(a0, b0, ps)
    ctx = dict(where=where, shape1=list(a0.shape), shape2=list(b0.shape), pixshift=ps)
    if not out.expect(isinstance(res, np.ndarray) and res.ndim == 2, 'append-shape', 'result is not a 2-d array', **ctx):
        return False
    if not out.expect(res.shape == ref.shape, 'append-shape',
                      'result shape %s, expected %s (rows add up, width = max(n1+max(-shift,0), n2+max(shift,0)))'
                      % (res.shape, ref.shape), **ctx):
        return False
    r1, n1 = a0.shape
    ok = True
    ok &= out.expect(np.array_equal(res[:r1, o1:o1 + n1], a0), 'append-placement',
                     'first block not found unchanged at column offset %d' % o1, **ctx)
    ok &= out.expect(np.array_equal(res[r1:, o2:o2 + b0.shape[1]], b0), 'append-placement',
                     'second block not found unchanged at column offset %d' % o2, **ctx)
    mask = np.ones(res.shape, dtype=bool)
    mask[:r1, o1:o1 + n1] = False
    mask[r1:, o2:o2 + b0.shape[1]] = False
    ok &= out.expect(not np.any(res[mask] != 0), 'append-zero-padding', 'padding cells are not all zero',
                     nonzero=int(np.count_nonzero(res[mask])), **ctx)
    ids_in = np.sort(np.concatenate((a0[a0 != 0].ravel(), b0[b0 != 0].ravel())).astype('f8'))
    ids_out = np.sort(res[res != 0].ravel().astype('f8'))
    ok &= out.expect(ids_in.shape == ids_out.shape and np.array_equal(ids_in, ids_out), 'append-conservation',
                     'multiset of non-zero values changed (%d in, %d out)' % (ids_in.size, ids_out.size), **ctx)
    ok &= out.expect(np.array_equal(a, a0) and np.array_equal(b, b0) and a.shape == a0.shape and b.shape == b0.shape,
                     'append-inputs', 'an input array was modified', **ctx)
    ok &= out.expect(not np.shares_memory(res, a) and not np.shares_memory(res, b), 'append-new-array',
                     'result shares memory with an input', **ctx)
    out.count('append_calls')
    if ps > 0:
        out.count('append_shift_pos')
    elif ps < 0:
        out.count('append_shift_neg')
    if a0.shape[1] + o1 != b0.shape[1] + o2:
        out.count('append_pad_right')
    if abs(ps) >= min(a0.shape[1], b0.shape[1]):
        out.count('append_shift_ge_width')
    if a0.shape[0] == 0 or b0.shape[0] == 0 or a0.shape[1] == 0 or b0.shape[1] == 0:
        out.count('append_empty_block')
    return bool(ok)


# ----------------------------------------------------------------------------------------------
# generators: trees and requests
# ----------------------------------------------------------------------------------------------
def gen_tree(rng, kind='boss', layout='tree', allfib=False, decoy=False, photoplate='auto', small=False,
             shared_solution=None, confusable=None, five_digit=False):
    sdss = kind == 'sdss'
    lo, hi = (51600, 55024) if sdss else (55025, 59990)
    nplates = rng.randint(2, 3 if (allfib and sdss) else 5)
    p0 = rng.choice([rng.randint(1, 9), rng.randint(10, 99), rng.randint(100, 998), rng.randint(1000, 9990)])
    plates = [p0]
    while len(plates) < nplates:
        c = rng.choice([plates[-1] + 1, plates[-1] + 1, rng.randint(1, 9999), p0 + rng.randint(1, 5),
                        rng.choice([9999, 10000, rng.randint(10000, 16383)]) if rng.random() < 0.5 else rng.randint(1, 9999)])
        if c not in plates and 1 <= c <= 16383:
            plates.append(c)
    if five_digit and not any(q > 9999 for q in plates):
        plates[0] = rng.choice([10000, rng.randint(10001, 16383)])
    rng.shuffle(plates)
    shared = rng.randint(lo, hi - 4)
    files = []
    # the SDSS-I/II | BOSS boundary (MJD 55024 | 55025) decides how number_of_fibers counts: put plates on it
    edge = rng.random() < (0.7 if allfib else 0.1)
    for p in plates:
        nm = rng.choice([1, 2, 2, 3]) if not (allfib and sdss) else rng.choice([1, 2])
        m0 = rng.choice([shared, shared, rng.randint(lo, hi - 4)])
        cand = [m0, m0 + 1, m0 + rng.randint(2, 4), rng.randint(lo, hi)]
        rng.shuffle(cand)
        if edge and p == plates[0]:
            cand = [hi if sdss else lo] + [m for m in cand if m < hi - 10][:1 if sdss else 0]
            nm = len(cand)
        mjds = []
        for m in cand:
            if m not in mjds and len(mjds) < nm:
                mjds.append(m)
        nfib_plate = 640 if (allfib and sdss) else rng.randint(4, 12 if small else 40)
        for m in mjds:
            nfib = nfib_plate if allfib else rng.randint(4, 12 if small else 40)
            npix = rng.randint(4, 8) if (allfib and sdss) else rng.choice([rng.randint(4, 60), rng.randint(4, 60), 32])
            c0 = round(rng.uniform(3.5, 3.6), 4)
            c1 = rng.choice([1e-4, 1e-4, 2e-4, 1.5e-4])
            files.append([p, m, nfib, npix, c0, c1])
    # plate numbers that are textual prefixes of / contained in each other: P (4 digits) and 10P+d (5 digits, LATER MJD
    # than any of P), P < 1000 and 10P+d ('0266' / '2660'); in the flat path= layout they share one directory.
    if confusable is None:
        confusable = rng.random() < 0.15
    if confusable and not allfib and len(files) <= 11:
        top = max(f[1] for f in files)
        for base in ([rng.randint(1000, 9999)] + ([rng.randint(100, 999)] if rng.random() < 0.5 and len(files) <= 6 else [])):
            if base in plates:
                continue
            m0 = rng.randint(lo, max(lo, min(top, hi - 8)))
            for m in sorted({m0, m0 + rng.choice([0, 1, 3])}):
                files.append([base, m, rng.randint(4, 12 if small else 40), rng.randint(4, 60),
                              round(rng.uniform(3.5, 3.6), 4), rng.choice([1e-4, 2e-4])])
            longer = 10 * base + rng.randint(0, 9)
            files.append([longer, m0 + rng.randint(4, 7), rng.randint(4, 12 if small else 40), rng.randint(4, 60),
                          round(rng.uniform(3.5, 3.6), 4), rng.choice([1e-4, 2e-4])])
            if rng.random() < 0.4:
                files.append([longer, max(lo, m0 - rng.randint(1, 5)), rng.randint(4, 12 if small else 40), rng.randint(4, 60),
                              round(rng.uniform(3.5, 3.6), 4), 1e-4])
    rng.shuffle(files)
    # several plate-MJDs with the SAME COEFF0/COEFF1 but different pixel counts (file order is random, so the shorter
    # one comes first or last in plate-MJD order): anything keyed on the wavelength solution must still respect NAXIS1
    if shared_solution is None:
        shared_solution = rng.random() < 0.3
    if shared_solution:
        sols = [(f[4], f[5]) for f in files[:rng.choice([1, 1, 2])]]
        for f in files:
            f[4], f[5] = rng.choice(sols)
        if not (allfib and sdss):
            used = set()
            for f in files:
                while f[3] in used:
                    f[3] = rng.randint(4, 60)
                used.add(f[3])
    if photoplate == 'auto':
        photoplate = rng.choice(['match', 'match', None]) if sdss else rng.choice(['plate', 'plate', None, 'match'])
    run2d = rng.choice(['26', '103', '104']) if sdss else rng.choice(['v5_7_0', 'v5_4_45', 'v5_10_0', 'test'])
    run1d = rng.choice(['', run2d]) if sdss else rng.choice([run2d, run2d, 'v5_7_2', 'rm1d'])
    tree = {'kind': kind, 'run2d': run2d, 'run1d': run1d, 'layout': layout, 'zbest': rng.random() < 0.85,
            'photoplate': photoplate, 'platelist': bool(allfib and not sdss), 'plates': files, 'decoy': None,
            # per-file table heterogeneity (string widths, int16/32/64, float32/64, column order): seed or None
            'tabvar': rng.getrandbits(16) if rng.random() < 0.75 else None,
            # WCS / WAT cards next to COEFF0/COEFF1 that do not repeat them, other HDUs repeating COEFF0 with other values
            'hdrvar': rng.getrandbits(16) if rng.random() < 0.75 else None}
    if decoy:
        # same plate-MJD files (so that every lookup succeeds) with other shapes and another id range
        # (a 'twin': requests may also be aimed at it, alternating with the main tree in one process); half of its
        # files keep the wavelength solution of their namesake, all differ in pixel count
        tree['decoy'] = [[f[0], f[1], (640 if sdss else f[2] + 3) if allfib else rng.randint(40, 44),
                          rng.choice([x for x in range(4, 65) if x != f[3]]) if not (allfib and sdss) else 8,
                          rng.choice([f[4], round(f[4] + 0.01, 4)]), f[5]] for f in files]
    return tree


def gen_alias_tree(rng, kind='boss', layout='tree', allfib=False):
    """plate-MJD files that any narrow or lossy way of keying a plate-MJD would take for one and the same file:
    A  plates P and P + 65536 observed on the same MJD (equal in the low 16 bits: a shifted / packed 32-bit key wraps)
    B  plates P and P + 32768 on the same MJD (equal in the low 15 bits; 32767 | 32768 is where int16 ends)
    C  plate a on MJD b and plate b on MJD a (plates numbered like MJDs: every symmetric key - sum, xor, product - agrees)
    D  (P, M) and (P + d, M - d): equal plate + MJD
    plus an EARLIER MJD of the low plate of A (so that mjd omitted still means the shared night), and one bystander plate
    on a power-of-two boundary.  Every file differs in pixel count and wavelength solution.  Returns (tree, pairs)."""
    sdss = kind == 'sdss'
    lo, hi = (51600, 55024) if sdss else (55025, 59990)
    files, pairs, nfib_of, used_pix = [], {}, {}, set()

    def add(p, m):
        if any(f[0] == p and f[1] == m for f in files):
            return None
        nf = nfib_of.setdefault(p, rng.randint(4, 12)) if allfib else rng.randint(4, 12)
        npix = rng.choice([x for x in range(4, 61) if x not in used_pix])
        used_pix.add(npix)
        f = [p, m, nf, npix, round(rng.uniform(3.5, 3.6), 4), rng.choice([1e-4, 1e-4, 2e-4, 1.5e-4])]
        files.append(f)
        return f

    def pair(name, a, b):
        fa, fb = add(*a), add(*b)
        if fa is not None and fb is not None:
            pairs[name] = [[fa[0], fa[1]], [fb[0], fb[1]]]

    night = rng.randint(lo + 8, hi - 8)
    p = rng.choice([rng.randint(1, 9), rng.randint(10, 99), rng.randint(100, 999), rng.randint(1000, 9999),
                    rng.randint(10000, 34463)])
    pair('A', (p, night), (p + 65536, night))
    add(p, night - rng.randint(1, 4))
    p = rng.choice([rng.randint(1, 9999), rng.randint(1, 67231), 32767, 1])
    m = rng.choice([night, rng.randint(lo, hi)])
    pair('B', (p, m), (p + 32768, m))
    a, b = rng.sample(range(lo, hi + 1), 2)
    pair('C', (a, b), (b, a))
    p, m, d = rng.randint(1, 9990), rng.randint(lo + 4, hi), rng.randint(1, 3)
    pair('D', (p, m), (p + d, m - d))
    add(rng.choice([65535, 65536, 32768, 99999, 16384]), rng.choice([night, rng.randint(lo, hi)]))
    rng.shuffle(files)
    photoplate = rng.choice(['match', 'match', None]) if sdss else rng.choice(['plate', 'plate', None, 'match'])
    run2d = rng.choice(['26', '103', '104']) if sdss else rng.choice(['v5_7_0', 'v5_4_45', 'v5_10_0', 'test'])
    run1d = rng.choice(['', run2d]) if sdss else rng.choice([run2d, run2d, 'v5_7_2', 'rm1d'])
    tree = {'kind': kind, 'run2d': run2d, 'run1d': run1d, 'layout': layout, 'zbest': rng.random() < 0.85,
            'photoplate': photoplate, 'platelist': bool(allfib and not sdss), 'plates': files, 'decoy': None,
            'tabvar': rng.getrandbits(16) if rng.random() < 0.5 else None,
            'hdrvar': rng.getrandbits(16) if rng.random() < 0.5 else None}
    return tree, pairs


def alias_counters(trip, out, mjd_omitted):
    """which of the aliasing pairs one request names (both files of the pair in the same call)"""
    asked = set((p, m) for p, m, f in trip)
    sums = {}
    for p, m in asked:
        sums.setdefault(p + m, set()).add(p)
    hit = set()
    for p, m in asked:
        if (p + 65536, m) in asked:
            hit.add('req_plates_differ_65536_same_mjd')
        if (p + 32768, m) in asked:
            hit.add('req_plates_differ_32768_same_mjd')
        if p != m and (m, p) in asked:
            hit.add('req_plate_mjd_swapped_pair')
        if len(sums[p + m]) > 1:
            hit.add('req_plate_mjd_equal_sum')
    for h in hit:
        out.count(h)
        if mjd_omitted:
            out.count(h + '_mjd_omitted')


def prefix_requests(rng, tree, kw, shadow='good'):
    """requests aimed at plates whose number is the textual prefix of another plate's: MJD omitted for the short one,
    explicit MJD for a request mixing both"""
    files = tree['plates']
    reqs = []
    for p in sorted({f[0] for f in files}):
        sib = [f for f in files if f[0] != p and ('%04d' % f[0]).startswith('%04d' % p)]
        if not sib:
            continue
        mine = [f for f in files if f[0] == p]
        reqs.append(gen_request(rng, dict(tree, plates=mine), rng.choice(['sNv', 'sNs', 'l1Nv']), kw=kw, shadow=shadow))
        reqs.append(gen_request(rng, dict(tree, plates=mine + sib), rng.choice(['vvv', 'vNv']), kw=kw, shadow=shadow, per_file=2))
        reqs.append(gen_request(rng, dict(tree, plates=sib), rng.choice(['sNv', 'sNs']), kw=kw, shadow=shadow))
        reqs.append(gen_request(rng, tree, 'vNv', kw=kw, shadow=shadow))
    return reqs[:4]


def _latest(files):
    lat = {}
    for f in files:
        lat[f[0]] = max(lat.get(f[0], 0), f[1])
    return lat


def _pick_fibre(rng, nfib):
    return rng.choice([1, nfib, rng.randint(1, nfib), rng.randint(1, nfib), rng.randint(1, nfib)])


def _chosen_with(rng, pool, must, extra):
    """the files in ``must`` (all of them) plus up to ``extra`` others of the pool"""
    must = [f for f in pool if any(f[0] == g[0] and f[1] == g[1] for g in must)]
    rest = [f for f in pool if f not in must]
    return must + rng.sample(rest, min(len(rest), extra))


def gen_request(rng, tree, style, kw=(), shadow='good', per_file=1, min_n=1, must=None, long=False):
    """must: plate-MJD files that the request names in any case (vector-plate styles); long: 100-300 requests"""
    files = tree['plates']
    lat = _latest(files)
    latest_files = [f for f in files if f[1] == lat[f[0]]]
    nomjd = 'N' in style
    pool = latest_files if nomjd else files
    req = {'style': style, 'kw': list(kw), 'shadow': shadow}
    maxm = max(f[1] for f in files)
    maxp = max(f[0] for f in files)
    if style in ('vvv', 'vNv'):
        if must:
            chosen = _chosen_with(rng, pool, must, len(pool) if long else rng.randint(0, 3))
            k = len(chosen)
        else:
            k = min(len(pool), rng.choice([1, 2, 3, 3, 4, 5, 5]))
            chosen = rng.sample(pool, k)
        n = rng.randint(k, rng.choice([k, 8, 30]) if k <= 8 else k)
        if long:
            n = rng.randint(100, 300)
        n = max(n, k * per_file, min_n)
        rows = [(f, _pick_fibre(rng, f[2])) for f in chosen for _ in range(per_file)]
        while len(rows) < n:
            if rows and rng.random() < 0.2:
                rows.append(rng.choice(rows))            # exact repetition of a request
            else:
                f = rng.choice(chosen)
                rows.append((f, _pick_fibre(rng, f[2])))
        order = rng.choice(['shuffle', 'shuffle', 'reverse', 'sorted', 'interleave'])
        key = lambda r: (r[0][0], r[0][1], r[1])
        if order == 'shuffle':
            rng.shuffle(rows)
        elif order == 'reverse':
            rows.sort(key=key, reverse=True)
        elif order == 'sorted':
            rows.sort(key=key)
        else:
            rows.sort(key=key)
            rows = rows[0::2] + rows[1::2]
        req['plate'] = [r[0][0] for r in rows]
        req['mjd'] = None if nomjd else [r[0][1] for r in rows]
        req['fiber'] = [r[1] for r in rows]
        n = len(rows)
        req['pform'] = vec_form(rng, True, maxp, n)
        req['mform'] = vec_form(rng, True, maxm, n)
        req['fform'] = vec_form(rng, True, 0, n)
    elif style in ('svv', 'sNv', 'l1v', 'l1Nv'):
        f = rng.choice(pool)
        n = rng.randint(2, 20)
        fib = [_pick_fibre(rng, f[2]) for _ in range(n)]
        if rng.random() < 0.3:
            fib.sort(reverse=True)
        one = style.startswith('l1')
        req['plate'] = [f[0]] if one else f[0]
        req['mjd'] = None if nomjd else ([f[1]] if (one and rng.random() < 0.5) else f[1])
        req['fiber'] = fib
        req['pform'] = vec_form(rng, True, maxp, 1) if one else scalar_form(rng, maxp)
        req['mform'] = vec_form(rng, True, maxm, 1) if isinstance(req['mjd'], list) else scalar_form(rng, maxm)
        req['fform'] = vec_form(rng, True, 0, n)
    elif style in ('vvs', 'vNs'):
        if must:
            chosen = _chosen_with(rng, pool, must, rng.randint(0, 2))
            k = len(chosen)
        else:
            k = min(len(pool), rng.randint(2, 5))
            chosen = rng.sample(pool, k)
        n = rng.randint(k, max(k, 12))
        rows = list(chosen) + [rng.choice(chosen) for _ in range(n - k)]
        rng.shuffle(rows)
        if rng.random() < 0.3:
            rows.sort(key=lambda r: (r[0], r[1]), reverse=True)
        fmax = min(r[2] for r in rows)
        fib = _pick_fibre(rng, fmax)
        one = rng.random() < 0.3          # fibre as a length-1 vector
        req['plate'] = [r[0] for r in rows]
        req['mjd'] = None if nomjd else [r[1] for r in rows]
        req['fiber'] = [fib] if one else fib
        req['pform'] = vec_form(rng, True, maxp, n)
        req['mform'] = vec_form(rng, True, maxm, n)
        req['fform'] = vec_form(rng, True, 0, 1) if one else scalar_form(rng)
    elif style in ('sss', 'sNs', 'l1l1', 'l1Nl1'):
        f = rng.choice(pool)
        fib = _pick_fibre(rng, f[2])
        one = style.startswith('l1')
        req['plate'] = [f[0]] if one else f[0]
        req['mjd'] = None if nomjd else ([f[1]] if (one and rng.random() < 0.5) else f[1])
        req['fiber'] = [fib] if one else fib
        req['pform'] = vec_form(rng, True, maxp, 1) if one else scalar_form(rng, maxp)
        req['mform'] = vec_form(rng, True, maxm, 1) if isinstance(req['mjd'], list) else scalar_form(rng, maxm)
        req['fform'] = vec_form(rng, True, 0, 1) if one else scalar_form(rng)
    elif style in ('all_s', 'all_sN'):
        f = rng.choice(pool)
        onedge = [g for g in pool if g[1] in (55024, 55025)]
        if onedge and rng.random() < 0.6:
            f = rng.choice(onedge)
        one = rng.random() < 0.3
        req['plate'] = [f[0]] if one else f[0]
        req['mjd'] = None if nomjd else f[1]
        req['fiber'] = None
        req['pform'] = vec_form(rng, False, maxp, 1) if one else scalar_form(rng, maxp)   # documented: int or ndarray
        req['mform'] = scalar_form(rng, maxm)
        req['fform'] = 'int'
    elif style == 'all_vN':
        if must:
            chosen = _chosen_with(rng, latest_files, must, rng.randint(0, 1))
            k = len(chosen)
        else:
            k = min(len(latest_files), rng.randint(2, 3))
            chosen = rng.sample(latest_files, k)
        onedge = [g for g in latest_files if g[1] in (55024, 55025) and g not in chosen]
        if onedge and rng.random() < 0.6:
            chosen[rng.randrange(k)] = onedge[0]
        req['plate'] = [f[0] for f in chosen]
        req['mjd'] = None
        req['fiber'] = None
        req['pform'] = vec_form(rng, False, maxp, k)
        req['mform'] = 'int'
        req['fform'] = 'int'
    else:
        raise ValueError(style)
    return req


def expand(tree, req):
    """request -> ([(plate, mjd, fibre), ...], ordered)   written from the readspec docstring, not its code"""
    files = tree['plates']
    lat = _latest(files)
    nfib = {(f[0], f[1]): f[2] for f in files}
    plate, mjd, fiber = req['plate'], req['mjd'], req['fiber']
    pl = list(plate) if isinstance(plate, list) else [plate]
    if fiber is None:
        if len(pl) == 1:
            m = lat[pl[0]] if mjd is None else (mjd[0] if isinstance(mjd, list) else mjd)
            return [(pl[0], m, f) for f in range(1, nfib[(pl[0], m)] + 1)], True
        trip = []
        for p in sorted(pl):
            trip += [(p, lat[p], f) for f in range(1, nfib[(p, lat[p])] + 1)]
        return trip, False
    fb = list(fiber) if isinstance(fiber, list) else [fiber]
    n = max(len(pl), len(fb))
    if len(pl) == 1:
        pl = pl * n
    if len(fb) == 1:
        fb = fb * n
    if mjd is None:
        mj = [lat[p] for p in pl]
    else:
        mj = list(mjd) if isinstance(mjd, list) else [mjd]
        if len(mj) == 1:
            mj = mj * n
    return list(zip(pl, mj, fb)), True


class C16(Check):
    ID = 'C16'
    MIN_NONTRIVIAL = 10
    RULE = ('synthetic survey trees (2-5 plates, 1-3 MJDs per plate incl. MJDs shared between plates and adjacent '
            'plate numbers, 4-40 fibres - 640 on the SDSS all-fibres path -, 4-60 pixels differing per file, different '
            'COEFF0/COEFF1, with/without spZbest and photoPlate in both locations, BOSS and SDSS-I/II layouts, flat '
            'path= layout) whose every number encodes (file, HDU, fibre, pixel); 6-10 requests per tree: vector '
            'requests of length 1-30 with repeats in shuffled / reversed / interleaved / sorted order, scalar plate + '
            'vector fibre, vector plate + scalar fibre, all scalar, length-1 vectors, mjd=None, fiber=None, Python '
            'ints / lists / numpy scalars / arrays of int16..uint64; files located through the environment, through '
            'topdir/run2d/run1d keywords (environment unset or pointing at a decoy tree with the same plates) or path=. '
            'State across calls: request vectors (ndarrays of int16/32/64, uint16/32/64 - int32 is readspec\'s own dtype - and '
            'lists) materialised once and handed to 2-4 calls (same request with other keywords; same fibre vector with the '
            'next plate; same plate/MJD vectors with other fibres) must be byte-identical after every call and every call must '
            'still satisfy the oracle; two trees with the same plate numbers and MJDs (other lengths, ids, partly the same '
            'COEFF0/COEFF1) are read alternately in one process; trees in which several plate-MJDs share COEFF0/COEFF1 but differ '
            'in pixel count, shorter first and shorter last, with >= 2 rows per file.  '
            'Names and headers: plates whose number is the textual prefix of another plate\'s (P and 10P+d across the 9999/10000 '
            'boundary, the longer one with the later MJD; 5-digit plates are requested like any other) in per-plate directories and in '
            'one flat path= directory, asked with MJD omitted; in 3 of 4 trees the spPlate primary headers also carry CRVAL1/CD1_1/'
            'CRPIX1/CDELT1/CTYPE1/DC-FLAG/WAT cards in SDSS style, referred to CRPIX1 != 1, or inconsistent with COEFF0/COEFF1, and '
            'the other HDUs repeat COEFF0/COEFF1 with other values - the expectation is always COEFF0 + COEFF1*pixel of HDU 0.  '
            'Aliased plate-MJDs: trees holding, with different pixel counts and solutions, plates P and P+65536 on one MJD '
            '(equal in the low 16 bits), P and P+32768 on one MJD, plate a on MJD b with plate b on MJD a, (P, M) with '
            '(P+d, M-d), and a plate on 16384/32768/65535/65536/99999; both files of a pair are named in one call (vector '
            'requests with and without mjd, scalar fibre, all fibres) and each alone; object lists of 100-300 requests over all '
            '9-10 files of such a tree.  '
            'History: the tree itself changes between the calls of one case (a later MJD of a plate already read is delivered, '
            'the latest MJD withdrawn, an earlier MJD or a new plate directory added, a file replaced under the same name with '
            'other ids in the same and in another shape, a second reduction below the same topdir selected by $RUN2D/run2d=); after '
            'every change all plates are requested with mjd omitted and the touched ones with and without mjd, expected values '
            'from the tree as it is then.  Tables: in 3 of 4 trees string columns are only as wide as the longest value of that plate file, extra integer '
            'columns are int16/32/64 and float columns float32/64 per file (wider files hold values the narrower type cannot '
            'represent), column order differs per file; full values are compared (strings after stripping blank padding, numbers '
            'exactly).  '
            'spec_append: every call readspec makes, plus direct calls and chains with shifts of both signs up to '
            'beyond the width, empty blocks, four dtypes.  Non-trivial (readspec): a request naming >= 3 distinct '
            'plate-MJD files in an order that is not file order; (spec_append): non-zero shift with unequal widths; '
            'distinct by hash of tree+requests.')
    ASSUMPTIONS = [
        'oracle rebuilds the expected arrays from the request and the id code of vlib/gen/survey_tree.py; it never indexes the files',
        'SPECTRO_MATCH and PHOTO_RESOLVE are always set (readspec consults them whenever no photoPlate lies next to the spPlate)',
        'optional files (spZbest, photoPlate) exist for all plate-MJDs of a tree or for none; plate numbers 1-99999 (1 to 5 digits), MJD < 65536',
        'fiber=None: every MJD of a plate has the same fibre count; several plates only with mjd=None and distinct plates, '
        'and then only the multiset of rows and the row coherence across arrays is asserted (the property defines no order)',
        'single-element unsigned 64-bit request components (numpy uint64 scalar, length-1 uint64 vector) are outside the domain',
        'align=True and znum= are outside the property',
        'width of the returned images may exceed the longest requested spectrum as long as the excess is zero',
        'loglam beyond the length of a shorter spectrum may be 0 (padding) or COEFF0+COEFF1*pixel',
    ]
    REQUIRED_COUNTERS = ('req_scrambled_multifile', 'rows_zero_padded', 'req_same_plate_two_mjd', 'req_latest_multi_mjd',
                         'req_all_fibres', 'req_all_fibres_boss', 'req_kw_override', 'req_env_decoy', 'req_env_unset',
                         'req_path', 'req_sdss_redux', 'req_repeated_rows', 'zans_rows', 'tsobj_rows',
                         'tsobj_rows_match_location', 'append_calls_inside_readspec', 'append_shift_pos',
                         'append_shift_neg', 'append_pad_right', 'table_cells_2d',
                         # state that must not go stale between calls / between files of one call
                         'arrays_checked_unmodified', 'req_reused_array', 'req_reused_array_third_call',
                         'reused_fiber_array_i2', 'reused_fiber_array_i4', 'reused_fiber_array_i8', 'reused_fiber_array_u8',
                         'reused_plate_array_i4', 'reused_mjd_array_i4', 'req_twin_tree',
                         'req_same_solution_shorter_later_multirow', 'req_same_solution_longer_later',
                         # tables whose column types differ between the plate files of one request
                         'tab_string_wider_than_first_file_plugmap', 'tab_string_wider_than_first_file_zans',
                         'tab_string_wider_than_first_file_tsobj', 'tab_int_wider_than_first_file_plugmap',
                         'tab_int_wider_than_first_file_zans', 'tab_int_wider_than_first_file_tsobj',
                         'tab_float_wider_than_first_file_plugmap', 'tab_float_wider_than_first_file_zans',
                         'tab_float_wider_than_first_file_tsobj', 'tab_column_order_differs',
                         # plate numbers that are prefixes of each other; header cards beside COEFF0/COEFF1
                         'req_mjd_omitted_prefix_plate_later_mjd_same_directory', 'req_mjd_omitted_prefix_plate_later_mjd_tree',
                         'req_five_digit_plate', 'req_five_digit_plate_mjd_omitted', 'req_five_digit_plate_all_fibres',
                         # plate-MJD files that coincide under narrow or lossy keys, both named in one call; long object lists
                         'req_plates_differ_65536_same_mjd', 'req_plates_differ_65536_same_mjd_mjd_omitted',
                         'req_plates_differ_32768_same_mjd', 'req_plate_mjd_swapped_pair', 'req_plate_mjd_equal_sum',
                         'req_long_vector_8_files',
                         'hdr_files_wcs_crpix', 'hdr_files_wcs_inconsistent', 'hdr_files_wcs_sdss',
                         'hdr_files_wcs_wat', 'hdr_files_other_hdus_repeat_coeff0',
                         # the survey tree changes between the calls of one process
                         'hist_mjd_omitted_after_later_mjd_delivered', 'hist_mjd_omitted_after_latest_mjd_withdrawn',
                         'hist_request_in_new_plate_directory', 'hist_file_replaced_same_shape',
                         'hist_file_replaced_other_shape', 'hist_mjd_given_after_change',
                         'hist_run2d_switched_below_same_topdir', 'hist_all_fibres_after_change')

    # ------------------------------------------------------------------ setup
    def setup(self):
        import pydl.pydlspec2d.spec1d as S
        from astropy import log
        self.S = S
        self._log = log
        self._loglevel = log.level
        log.setLevel('ERROR')
        for f in (S.readspec, S.spec_append, S.spec_path, S.latest_mjd, S.number_of_fibers):
            self.reach.add(f)
        self._orig_append = S.spec_append
        self.append_log = []
        alog = self.append_log
        orig = S.spec_append

        @functools.wraps(orig)
        def contract(*a, **k):
            if self.brd.in_protocol:            # (calls the buffer-reuse monitor makes on its own are not the case's appends)
                return orig(*a, **k)
            s1, s2 = a[0], a[1]
            ps = a[2] if len(a) > 2 else k.get('pixshift', 0)
            a0 = np.array(s1, copy=True)
            b0 = np.array(s2, copy=True)
            r = orig(*a, **k)
            alog.append((a0, b0, ps, s1, s2, r))
            return r
        S.spec_append = contract
        self.brd.per_case = 3
        self.brd.attach(self.rec, S, 'spec_append', every=3, own=True)       # buffer-reuse differential (vlib/brd.py)
        for n in ('readspec', 'spec_append', 'spec_path', 'latest_mjd', 'number_of_fibers'):
            self.rec.wrap(S, n)

    def teardown(self):
        self.rec.unwrap_all()
        self.S.spec_append = self._orig_append
        self._log.setLevel(self._loglevel)

    def budget(self, tier):
        q = tier == 'quick'
        return {'scrambled': 20 if q else 800,
                'latest': 16 if q else 400,
                'conventions': 16 if q else 400,
                'override': 14 if q else 320,
                'path': 12 if q else 200,
                'sdss': 12 if q else 200,
                'allfibres': 12 if q else 160,
                'shared_grid': 12 if q else 160,
                'reuse': 28 if q else 280,
                'twin': 6 if q else 100,
                'history': 12 if q else 200,
                'aliased': 8 if q else 240,
                'append': 1500 if q else 30000,
                'append_chain': 300 if q else 6000}

    # -------------------------------------------------------------------- gen
    def gen(self, cls, rng, i):
        if cls == 'append':
            return self.gen_append(rng, 2)
        if cls == 'append_chain':
            return self.gen_append(rng, rng.randint(3, 6))
        kwsets = [(), (), ('run2d',), ('run1d',), ('run2d', 'run1d'), ('topdir',), ('topdir', 'run2d', 'run1d')]
        if cls == 'scrambled':
            tree = gen_tree(rng, 'boss')
            reqs = [gen_request(rng, tree, 'vvv', kw=rng.choice(kwsets)) for _ in range(6)]
        elif cls == 'latest':
            tree = gen_tree(rng, rng.choice(['boss', 'boss', 'sdss']), confusable=(i % 2 == 1))
            reqs = [gen_request(rng, tree, rng.choice(['vNv', 'vNv', 'vNv', 'sNv', 'vNs', 'sNs', 'l1Nv', 'l1Nl1']),
                                kw=rng.choice(kwsets)) for _ in range(6)]
            reqs += prefix_requests(rng, tree, rng.choice(kwsets))
        elif cls == 'conventions':
            tree = gen_tree(rng, rng.choice(['boss', 'boss', 'sdss']))
            styles = ['svv', 'sNv', 'vvs', 'vNs', 'sss', 'sNs', 'l1v', 'l1Nv', 'l1l1', 'l1Nl1']
            rng.shuffle(styles)
            reqs = [gen_request(rng, tree, s, kw=rng.choice(kwsets)) for s in styles]
        elif cls == 'override':
            allfib = i % 4 == 3
            tree = gen_tree(rng, 'sdss' if i % 5 == 4 else 'boss', decoy=True, allfib=allfib, small=True)
            styles = ['vvv', 'vvv', 'vNv', 'svv', 'vNs', 'sss'] + (['all_s', 'all_sN'] if allfib else ['vvv', 'sNv'])
            full = ('topdir', 'run2d', 'run1d')
            reqs = []
            for k, s in enumerate(styles):
                kw = full if k % 2 == 0 else rng.choice([full, ('topdir',), ('topdir', 'run2d'), ('run2d', 'run1d'), ('run1d',)])
                reqs.append(gen_request(rng, tree, s, kw=kw, shadow=['decoy', 'unset'][(i + k) % 2]))
        elif cls == 'path':
            allfib = i % 4 == 3
            tree = gen_tree(rng, 'boss' if i % 3 else 'sdss', layout='flat', decoy=(i % 2 == 0), allfib=allfib, small=True,
                            photoplate=rng.choice(['plate', 'plate', None]), confusable=(i % 4 != 0))
            styles = ['vvv', 'vvv', 'vNv', 'sNv', 'vvs', 'sss'] + (['all_s', 'all_sN'] if allfib else ['vNv'])
            reqs = []
            for k, s in enumerate(styles):
                kw = ('path',) + rng.choice([(), (), ('run2d', 'run1d'), ('run1d',)])
                shadow = rng.choice(['decoy', 'unset']) if tree['decoy'] else 'unset'
                reqs.append(gen_request(rng, tree, s, kw=kw, shadow=shadow))
            reqs += prefix_requests(rng, tree, ('path',) + rng.choice([(), ('run2d', 'run1d')]),
                                    shadow='decoy' if tree['decoy'] else 'unset')
        elif cls == 'sdss':
            tree = gen_tree(rng, 'sdss')
            reqs = [gen_request(rng, tree, rng.choice(['vvv', 'vvv', 'vNv', 'svv', 'vvs']), kw=rng.choice(kwsets))
                    for _ in range(6)]
        elif cls == 'shared_grid':
            # several plate-MJDs on one wavelength solution with different lengths, >= 2 rows from each file per call
            tree = gen_tree(rng, rng.choice(['boss', 'boss', 'sdss']), shared_solution=True)
            styles = ['vvv', 'vvv', 'vNv', 'vvv', rng.choice(['vvs', 'vNs']), 'vvv']
            reqs = [gen_request(rng, tree, st, kw=rng.choice(kwsets), per_file=rng.choice([2, 2, 3])) for st in styles]
        elif cls == 'reuse':
            tree, reqs = self.gen_reuse(rng, i, kwsets)
        elif cls == 'twin':
            # two trees with the same plate numbers and MJDs read alternately in one process
            tree = gen_tree(rng, 'sdss' if i % 4 == 3 else 'boss', decoy=True, small=True,
                            shared_solution=rng.random() < 0.5)
            full = ('topdir', 'run2d', 'run1d')
            reqs = []
            for k in range(4):
                st = rng.choice(['vvv', 'vvv', 'vNv', 'svv', 'sNv', 'vvs'])
                a = gen_request(rng, tree, st, kw=rng.choice([(), (), full, ('topdir',)]), shadow='decoy',
                                per_file=rng.choice([1, 2]))
                b = dict(a)
                b['kw'] = list(rng.choice([(), (), full, ('topdir',)]))
                order = ['main', 'twin'] if (i + k) % 2 == 0 else ['twin', 'main']
                a['target'], b['target'] = order
                reqs += [a, b]
        elif cls == 'history':
            return self.gen_history(rng, i, kwsets)
        elif cls == 'aliased':
            # plate-MJDs that coincide under narrow / lossy keys, both files of a pair named in ONE call
            allfib = i % 4 == 3
            tree, pairs = gen_alias_tree(rng, 'sdss' if (i % 4 == 1) else 'boss', layout='flat' if i % 3 == 2 else 'tree',
                                         allfib=allfib)
            names = sorted(pairs)
            kwof = lambda: (('path',) + rng.choice([(), ('run2d', 'run1d')])) if tree['layout'] == 'flat' else rng.choice(kwsets)
            lat = _latest(tree['plates'])
            islatest = lambda nm: all(lat[q] == m for q, m in pairs[nm])
            reqs = []
            for k, nm in enumerate(names):
                reqs.append(gen_request(rng, tree, 'vvv', kw=kwof(), shadow='unset', per_file=rng.choice([1, 2]),
                                        must=pairs[nm]))
                if islatest(nm):
                    st = ['vNv', 'vNs', 'all_vN' if allfib else 'vNv'][(i + k) % 3]
                    reqs.append(gen_request(rng, tree, st, kw=kwof(), shadow='unset', must=pairs[nm]))
                else:
                    reqs.append(gen_request(rng, tree, 'vvs', kw=kwof(), shadow='unset', must=pairs[nm]))
            # a long object list over every file of the tree
            reqs.append(gen_request(rng, tree, 'vvv', kw=kwof(), shadow='unset', must=tree['plates'], long=True))
            # each member of a pair on its own, the other one's file lying next to it
            for q, m in pairs[names[i % len(names)]]:
                reqs.append(gen_request(rng, dict(tree, plates=[f for f in tree['plates'] if f[0] == q and f[1] == m]),
                                        rng.choice(['svv', 'sss', 'l1v']), kw=kwof(), shadow='unset'))
            rng.shuffle(reqs)
        elif cls == 'allfibres':
            kind = 'sdss' if i % 2 == 0 else 'boss'
            tree = gen_tree(rng, kind, allfib=True, small=True, five_digit=(i % 4 in (0, 1)))
            styles = ['all_s', 'all_sN', 'all_vN', rng.choice(['all_s', 'all_sN', 'all_vN'])]
            reqs = [gen_request(rng, tree, s, kw=rng.choice([(), (), ('run2d',), ('run2d', 'run1d'),
                                                             ('topdir', 'run2d', 'run1d')])) for s in styles]
        else:
            raise ValueError(cls)
        return {'kind': 'readspec', 'tree': tree, 'requests': reqs}

    def gen_history(self, rng, i, kwsets):
        """a tree that changes between the calls of one case: later MJD delivered, latest withdrawn, new plate directory,
        file replaced under the same name, $RUN2D / topdir switched; every stage asks with and without mjd"""
        sdss = i % 5 == 4
        allfib = (not sdss) and i % 4 == 1
        tree = gen_tree(rng, 'sdss' if sdss else 'boss', small=True, allfib=allfib, decoy=(i % 2 == 0))
        keep = tree['plates'][:7]
        if len({f[0] for f in keep}) < 2:
            keep = tree['plates'][:7]
        tree['plates'] = keep
        if tree['decoy']:
            kk = {(f[0], f[1]) for f in keep}
            tree['decoy'] = [d for d in tree['decoy'] if (d[0], d[1]) in kk]
            if not allfib and i % 4 == 0:
                pool = ['26', '103', '104'] if sdss else ['v5_7_0', 'v5_4_45', 'v5_10_0', 'test']
                tree['twin_run2d'] = rng.choice([r for r in pool if r != tree['run2d']])
        lo, hi = (51600, 55024) if sdss else (55025, 59990)
        work = [list(f) for f in keep]
        nfib_of = {f[0]: f[2] for f in work}

        def newspec(p, m, like=None, same_shape=False):
            if same_shape:
                return [p, m, like[2], like[3], like[4], like[5]]
            nf = nfib_of.get(p, rng.randint(4, 12)) if allfib else rng.randint(4, 12)
            nfib_of.setdefault(p, nf)
            return [p, m, nf, rng.choice([x for x in range(4, 61) if like is None or x != like[3]]),
                    round(rng.uniform(3.5, 3.6), 4), rng.choice([1e-4, 2e-4])]

        def view(files):
            return dict(tree, plates=[list(f) for f in files])

        def requests(touched):
            reqs = []
            kw = lambda: rng.choice(kwsets)
            # every plate with mjd omitted at least once per stage (request over ALL plates)
            lat = _latest(work)
            allp = sorted(lat)
            rng.shuffle(allp)
            rows = {(f[0], f[1]): f for f in work}
            reqs.append({'style': 'vNv', 'kw': list(kw()), 'shadow': 'good', 'plate': allp, 'mjd': None,
                         'fiber': [_pick_fibre(rng, rows[(p, lat[p])][2]) for p in allp],
                         'pform': vec_form(rng, True, max(allp), len(allp)), 'mform': 'int', 'fform': vec_form(rng, True, 0, len(allp))})
            for p in touched[:2]:
                mine = [f for f in work if f[0] == p]
                if mine:
                    reqs.append(gen_request(rng, view(mine), rng.choice(['sNv', 'sNs']), kw=kw()))
                    if allfib:
                        reqs.append(gen_request(rng, view(mine), 'all_sN', kw=kw()))
                    reqs.append(gen_request(rng, view(mine), rng.choice(['vvv', 'svv']), kw=kw()))
            reqs.append(gen_request(rng, view(work), 'vvv', kw=kw()))
            if tree['decoy']:
                full = ('topdir', 'run2d', 'run1d')
                b = gen_request(rng, view(tree['decoy']), rng.choice(['vNv', 'sNv', 'vvv']),
                                kw=rng.choice([(), (), full, ('run2d',)]), shadow='decoy')
                b['target'] = 'twin'
                reqs.insert(rng.randint(1, len(reqs)), b)
            return reqs

        stages = [{'ops': [], 'requests': requests([])}]
        for si in range(rng.randint(2, 3)):
            ops, touched = [], []
            for _ in range(rng.choice([1, 1, 2])):
                lat = _latest(work)
                kinds = ['later', 'remove', 'same', 'newplate', 'later', 'other', 'remove', 'earlier']
                kind = kinds[(i + 3 * si + len(ops)) % len(kinds)]          # every kind of change in turn
                cand = sorted(lat)
                if kind == 'remove':
                    cand = [q for q in cand if len([f for f in work if f[0] == q]) > 1] or cand
                p = rng.choice(cand)
                mine = sorted(f[1] for f in work if f[0] == p)
                if p in touched:
                    continue
                if kind == 'remove' and len(mine) < 2:
                    kind = 'later'
                if kind == 'later' and lat[p] + 3 > hi:
                    kind = 'earlier'
                if kind == 'later':
                    spec = newspec(p, lat[p] + rng.randint(1, 3), like=[f for f in work if (f[0], f[1]) == (p, lat[p])][0])
                    ops.append(['add', spec])
                    work.append(spec)
                elif kind == 'earlier':
                    m = rng.choice([x for x in range(max(lo, mine[0] - 4), mine[-1]) if x not in mine] or [None])
                    if m is None:
                        continue
                    spec = newspec(p, m)
                    ops.append(['add', spec])
                    work.append(spec)
                elif kind == 'remove':
                    ops.append(['remove', p, lat[p]])
                    work[:] = [f for f in work if (f[0], f[1]) != (p, lat[p])]
                elif kind == 'newplate':
                    p = rng.choice([x for x in (max(lat) + 1, min(lat) - 1, rng.randint(1, 9999)) if 1 <= x <= 99999 and x not in lat]
                                   or [None])
                    if p is None:
                        continue
                    spec = newspec(p, rng.randint(lo, hi - 4))
                    ops.append(['add', spec])
                    work.append(spec)
                else:
                    old = rng.choice([f for f in work if f[0] == p and (kind == 'other' or f[1] == lat[p] or rng.random() < 0.5)]
                                     or [f for f in work if f[0] == p])
                    spec = newspec(p, old[1], like=old, same_shape=(kind == 'same'))
                    ops.append(['replace', spec])
                    work[work.index(old)] = spec
                touched.append(p)
            stages.append({'ops': ops, 'requests': requests(touched)})
        return {'kind': 'readspec', 'tree': tree, 'stages': stages}

    def gen_reuse(self, rng, i, kwsets):
        """request vectors that are materialised once and handed to two or three readspec calls"""
        forms = ['array:' + d for d in VEC_DTYPES] + ['list']
        fform = forms[i % len(forms)]                 # every dtype in turn, incl. int32 (readspec's own) and lists
        variant = (i // len(forms)) % 3
        tree = gen_tree(rng, 'sdss' if i % 5 == 4 else 'boss', small=rng.random() < 0.5)
        files = tree['plates']
        maxm = max(f[1] for f in files)
        maxp = max(f[0] for f in files)

        def aform(maxval=0):
            return rng.choice(['array:' + d for d in VEC_DTYPES if not (d == 'i2' and maxval > 32767)
                               and not (d == 'u2' and maxval > 65535)] + ['list'])
        reqs = []
        if variant == 0:
            # the same request, same objects, three times (other keywords each time)
            base = gen_request(rng, tree, rng.choice(['vvv', 'vvv', 'vNv']), per_file=rng.choice([1, 2]), min_n=2)
            base['fform'], base['pform'] = fform, aform(maxp)
            base['mform'] = aform(maxm)
            for k in range(3):
                r = dict(base)
                r['kw'] = list(rng.choice(kwsets))
                r['share'] = {'plate': 'p', 'mjd': 'm', 'fiber': 'f'}
                reqs.append(r)
        elif variant == 1:
            # one fibre vector, the next plate each time (scalar plate), then once more with the first plate
            chosen = [rng.choice(files) for _ in range(3)]
            if len(files) >= 3:
                chosen = rng.sample(files, 3)
            chosen.append(chosen[0])
            fmax = min(f[2] for f in chosen)
            fib = [_pick_fibre(rng, fmax) for _ in range(rng.randint(2, 12))]
            lat = _latest(files)
            for f in chosen:
                nomjd = f[1] == lat[f[0]] and rng.random() < 0.4
                reqs.append({'style': 'sNv' if nomjd else 'svv', 'kw': list(rng.choice(kwsets)), 'shadow': 'good',
                             'plate': f[0], 'mjd': None if nomjd else f[1], 'fiber': fib,
                             'pform': scalar_form(rng, maxp), 'mform': scalar_form(rng, maxm), 'fform': fform,
                             'share': {'fiber': 'f'}})
        else:
            # plate and MJD vectors shared, another fibre vector each time; the fibre vectors are reused crosswise
            base = gen_request(rng, tree, 'vvv', per_file=rng.choice([1, 2]), min_n=2)
            base['pform'] = fform if not (maxp > 32767 and fform in ('array:i2', 'array:u2')) else 'array:i4'
            base['mform'] = fform if fform != 'array:i2' else 'array:i4'
            rows = {(f[0], f[1]): f[2] for f in files}
            fibs = []
            for k in range(2):
                fibs.append([_pick_fibre(rng, rows[(p, m)]) for p, m in zip(base['plate'], base['mjd'])])
            for k in (0, 1, 0, 1):
                r = dict(base)
                r['fiber'] = fibs[k]
                r['fform'] = 'array:i4' if k == 0 else fform
                r['kw'] = list(rng.choice(kwsets))
                r['share'] = {'plate': 'p', 'mjd': 'm', 'fiber': 'f%d' % k}
                reqs.append(r)
        return tree, reqs

    def gen_append(self, rng, nblocks):
        dt = rng.choice(['f4', 'f4', 'i4', 'f8', 'i8'])
        w0 = rng.randint(1, 40)
        blocks = []
        for _ in range(nblocks):
            r = rng.choice([1, 1, 2, 3, rng.randint(1, 12), 0 if rng.random() < 0.15 else 1])
            c = rng.choice([w0, w0, w0 + rng.randint(-3, 3), rng.randint(1, 60), 0 if rng.random() < 0.1 else 1])
            blocks.append([r, max(c, 0)])
        shifts = []
        for k in range(1, nblocks):
            n1, n2 = blocks[k - 1][1], blocks[k][1]
            m = rng.randint(0, 7)
            if m == 0:
                ps = 0
            elif m == 1:
                ps = rng.choice([1, -1, 2, -2])
            elif m == 2:
                ps = n1 - n2                       # right edges aligned
            elif m == 3:
                ps = rng.choice([n1, -n2, n1 + 1, -n2 - 1, n2, -n1])   # shift at / beyond a width
            elif m == 4:
                ps = rng.randint(-70, 70)
            else:
                ps = rng.randint(-6, 6)
            shifts.append(ps)
        return {'kind': 'append', 'dtype': dt, 'blocks': blocks, 'shifts': shifts,
                'shift_form': rng.choice(['int', 'int', 'np:i8', 'np:i4', 'np:i2']),
                'omit_zero_shift': rng.random() < 0.5}

    # -------------------------------------------------------------------- run
    def run(self, case, out):
        del self.append_log[:]
        self._width = {}
        if case['kind'] == 'append':
            return self.run_append(case, out)
        root = tempfile.mkdtemp(prefix='case_', dir=self.workdir)
        try:
            t = case['tree']
            common = dict(run2d=t['run2d'], run1d=t['run1d'], layout=t['layout'], zbest=t['zbest'],
                          photoplate=t['photoplate'], platelist=t['platelist'])
            tv = t.get('tabvar')
            hv = t.get('hdrvar')
            desc = T.write_tree(os.path.join(root, 'main'), [tuple(p) for p in t['plates']], file_base=0,
                                table_variation=tv, header_variation=hv, **common)
            decoy = None
            if t.get('decoy'):
                c2 = dict(common)
                droot = os.path.join(root, 'decoy')
                if t.get('twin_run2d'):
                    # second reduction below the SAME topdir: only $RUN2D / run2d= tells the two apart
                    c2['run2d'] = t['twin_run2d']
                    droot = os.path.join(root, 'main')
                decoy = T.write_tree(droot, [tuple(p) for p in t['decoy']],
                                     file_base=DECOY_BASE, table_variation=None if tv is None else tv + 1,
                                     header_variation=None if hv is None else hv + 1, **c2)
            shared = {}        # request components materialised once and handed to several calls (key -> object)
            if 'stages' not in case:
                for qi, req in enumerate(case['requests']):
                    self.one_request(t, desc, decoy, req, qi, out, shared)
                return
            # the survey tree is an input that changes between the calls of one process
            tcur = dict(t, plates=[list(p) for p in t['plates']])
            primed = set()          # plates already asked about with mjd omitted (what a listing cache would hold)
            qi = 0
            for si, st in enumerate(case['stages']):
                hist = {'stage': si, 'primed': primed, 'later': set(), 'removed': set(), 'newplate': set(),
                        'same': set(), 'other': set(), 'earlier': set()}
                for op in st['ops']:
                    self.apply_op(op, tcur, desc, hist)
                out.count('hist_stages')
                for req in st['requests']:
                    self.one_request(tcur, desc, decoy, req, qi, out, shared, hist)
                    qi += 1
        finally:
            shutil.rmtree(root, ignore_errors=True)

    def apply_op(self, op, tcur, desc, hist):
        plates = tcur['plates']
        if op[0] == 'add':
            spec = list(op[1])
            have = [f for f in plates if f[0] == spec[0]]
            T.add_file(desc, tuple(spec))
            plates.append(spec)
            if not have:
                hist['newplate'].add(spec[0])
            elif spec[1] > max(f[1] for f in have):
                hist['later'].add(spec[0])
            else:
                hist['earlier'].add(spec[0])
        elif op[0] == 'remove':
            T.remove_file(desc, op[1], op[2])
            plates[:] = [f for f in plates if (f[0], f[1]) != (op[1], op[2])]
            hist['removed'].add(op[1])
        elif op[0] == 'replace':
            spec = list(op[1])
            old = [f for f in plates if (f[0], f[1]) == (spec[0], spec[1])][0]
            T.remove_file(desc, spec[0], spec[1])
            T.add_file(desc, tuple(spec))
            plates[plates.index(old)] = spec
            hist['same' if (old[2], old[3]) == (spec[2], spec[3]) else 'other'].add((spec[0], spec[1]))
        else:
            raise ValueError(op)

    def build_env(self, t, desc, decoy, req):
        env = dict(desc['env'])
        redux = 'SPECTRO_REDUX' if 'SPECTRO_REDUX' in env else 'BOSS_SPECTRO_REDUX'
        kw = {}
        for name in req['kw']:
            if name in ('topdir', 'path'):
                kw[name] = desc[name]
                var, bad = redux, (decoy['topdir'] if decoy else None)
            elif name == 'run2d':
                kw[name] = desc['run2d']
                var, bad = 'RUN2D', (decoy['run2d'] if decoy and decoy['run2d'] != desc['run2d'] else 'v0_0_0')
            else:
                kw[name] = desc['run1d']
                var, bad = 'RUN1D', 'v0_0_1'
            if req['shadow'] == 'unset':
                env[var] = None
            elif req['shadow'] == 'decoy':
                env[var] = bad
        return env, kw

    def one_request(self, t, desc, decoy, req, qi, out, shared=None, hist=None):
        S = self.S
        shared = {} if shared is None else shared
        if hist is not None:
            # which change of the tree this request comes after (expected values below are from the tree AS IT IS NOW)
            rp = set(req['plate'] if isinstance(req['plate'], list) else [req['plate']])
            if req.get('target') == 'twin':
                if t.get('twin_run2d'):
                    out.count('hist_run2d_switched_below_same_topdir')
                out.count('hist_other_tree_between_calls')
            else:
                files = {(f[0], f[1]) for f in t['plates']}
                rf = set(zip(req['plate'], req['mjd'])) if isinstance(req['mjd'], list) and isinstance(req['plate'], list) \
                    else ({(req['plate'], req['mjd'])} if req['mjd'] is not None and not isinstance(req['plate'], list)
                          and not isinstance(req['mjd'], list) else set())
                if req['mjd'] is None:
                    if rp & hist['later'] & hist['primed']:
                        out.count('hist_mjd_omitted_after_later_mjd_delivered')
                    if rp & hist['removed'] & hist['primed']:
                        out.count('hist_mjd_omitted_after_latest_mjd_withdrawn')
                    if rp & hist['earlier'] & hist['primed']:
                        out.count('hist_mjd_omitted_after_earlier_mjd_delivered')
                    if req['fiber'] is None and rp & (hist['later'] | hist['removed']) & hist['primed']:
                        out.count('hist_all_fibres_after_change')
                    hist['primed'] |= rp
                elif hist['stage'] > 0 and rp & (hist['later'] | hist['removed'] | hist['earlier']):
                    out.count('hist_mjd_given_after_change')
                if rp & hist['newplate']:
                    out.count('hist_request_in_new_plate_directory')
                lat = _latest(t['plates'])
                asked = rf if req['mjd'] is not None else {(p, lat[p]) for p in rp}
                if asked & hist['same']:
                    out.count('hist_file_replaced_same_shape')
                if asked & hist['other']:
                    out.count('hist_file_replaced_other_shape')
        if req.get('target') == 'twin':
            # aimed at the second tree of the case (same plate numbers and MJDs, other shapes / solutions / ids)
            t = dict(t, plates=t['decoy'])
            desc, decoy = decoy, desc
            out.count('req_twin_tree')
        trip, ordered = expand(t, req)
        n = len(trip)
        env, kw = self.build_env(t, desc, decoy, req)
        ctx = dict(request=qi, style=req['style'], kw=req['kw'], shadow=req['shadow'], target=req.get('target', 'main'))
        # ---- materialise the request; components named in req['share'] are the SAME objects in several calls
        comp = {}
        for name, form in (('plate', 'pform'), ('mjd', 'mform'), ('fiber', 'fform')):
            if req[name] is None:
                continue
            key = (req.get('share') or {}).get(name)
            if key is not None and key in shared:
                obj, uses = shared[key]
                shared[key] = (obj, uses + 1)
                out.count('req_reused_component')
                if isinstance(obj, np.ndarray):
                    out.count('req_reused_array')
                    out.count('reused_%s_array_%s' % (name, obj.dtype.str.lstrip('<>|=')))
                    if uses >= 2:
                        out.count('req_reused_array_third_call')
            else:
                obj = mat(req[name], req[form])
                if key is not None:
                    shared[key] = (obj, 1)
            comp[name] = obj
        args = [comp['plate']]
        for name in ('mjd', 'fiber'):
            if name in comp:
                kw[name] = comp[name]
        # what the request MEANS is what was generated: a shared component that an earlier call corrupted is reported
        # here and not handed to readspec again
        for name, obj in comp.items():
            now = np.asarray(obj).ravel().tolist()
            want = req[name] if isinstance(req[name], list) else [req[name]]
            if [int(x) for x in now] != [int(x) for x in want]:
                out.fail('inputs-unmodified', 'the shared %s vector no longer holds the generated request (%s): %s'
                         % (name, want, now), **ctx)
                return
        before = {}
        for name, obj in comp.items():
            if isinstance(obj, np.ndarray):
                before[name] = (obj.dtype.str, obj.shape, obj.tobytes())
            elif isinstance(obj, list):
                before[name] = list(obj)
        nlog = len(self.append_log)
        with T.environment(env):
            r = S.readspec(*args, **kw)
        # ---- the caller's request vectors are the caller's: byte-identical after the call
        for name, snap in before.items():
            obj = comp[name]
            if isinstance(obj, np.ndarray):
                same = (obj.dtype.str, obj.shape, obj.tobytes()) == snap
                out.count('arrays_checked_unmodified')
            else:
                same = obj == snap and all(type(a) is type(b) for a, b in zip(obj, snap))
            out.expect(same, 'inputs-unmodified',
                       'readspec changed the %s vector it was given: generated as %s, now %s'
                       % (name, req[name], obj.tolist() if isinstance(obj, np.ndarray) else obj), **ctx)
        # ---- bookkeeping of what this request exercised
        out.count('req_total')
        keys = [(p << 16) + m for p, m, f in trip]
        nfiles = len(set(keys))
        scr = nfiles >= 3 and any(a > b for a, b in zip(keys, keys[1:]))
        if scr:
            out.count('req_scrambled_multifile')
            out.nontrivial = True
        if len(set(trip)) < n:
            out.count('req_repeated_rows')
        byplate = {}
        for p, m, f in trip:
            byplate.setdefault(p, set()).add(m)
        if any(len(v) > 1 for v in byplate.values()):
            out.count('req_same_plate_two_mjd')
        if req['mjd'] is None:
            out.count('req_latest_mjd')
            nm = {}
            for f in t['plates']:
                nm[f[0]] = nm.get(f[0], 0) + 1
            if any(nm[p] > 1 for p in byplate):
                out.count('req_latest_multi_mjd')
        if req['mjd'] is None:
            # another plate whose file / directory name starts with this plate's, holding a LATER MJD
            lat_all = _latest(t['plates'])
            for p in byplate:
                pre = '%04d' % p
                if any(q != p and ('%04d' % q).startswith(pre) and lat_all[q] > lat_all[p] for q in lat_all):
                    out.count('req_mjd_omitted_prefix_plate_later_mjd' + ('_same_directory' if 'path' in req['kw'] else '_tree'))
        alias_counters(trip, out, req['mjd'] is None)
        if n >= 100:
            out.count('req_long_vector')
            if nfiles >= 8:
                out.count('req_long_vector_8_files')
        if any(p > 9999 for p in byplate):
            out.count('req_five_digit_plate')
            if req['mjd'] is None:
                out.count('req_five_digit_plate_mjd_omitted')
            if req['fiber'] is None:
                out.count('req_five_digit_plate_all_fibres')
        # files of one call that share COEFF0/COEFF1 but not the pixel count, in plate-MJD (= read) order
        meta = {(f[0] << 16) + f[1]: f for f in t['plates']}
        rows_of = {}
        for k in keys:
            rows_of[k] = rows_of.get(k, 0) + 1
        longest = {}
        for k in sorted(rows_of):
            f = meta[k]
            sol = (f[4], f[5])
            if sol in longest and f[3] < longest[sol]:
                out.count('req_same_solution_shorter_later')
                if rows_of[k] >= 2:
                    out.count('req_same_solution_shorter_later_multirow')
            elif sol in longest and f[3] > longest[sol]:
                out.count('req_same_solution_longer_later')
            longest[sol] = max(longest.get(sol, 0), f[3])
        if req['fiber'] is None:
            out.count('req_all_fibres')
            if t['kind'] == 'boss':
                out.count('req_all_fibres_boss')
        if not isinstance(req['plate'], list) and isinstance(req['fiber'], list):
            out.count('req_scalar_plate_vector_fibre')
        if isinstance(req['plate'], list) and len(req['plate']) > 1 and req['fiber'] is not None and \
                (not isinstance(req['fiber'], list) or len(req['fiber']) == 1):
            out.count('req_vector_plate_scalar_fibre')
        if not isinstance(req['plate'], list) and req['fiber'] is not None and not isinstance(req['fiber'], list):
            out.count('req_all_scalar')
        if req['kw']:
            out.count('req_kw_override')
        if 'path' in req['kw']:
            out.count('req_path')
        if req['kw'] and req['shadow'] == 'decoy' and decoy is not None:
            out.count('req_env_decoy')
        if req['kw'] and req['shadow'] == 'unset':
            out.count('req_env_unset')
        if t['kind'] == 'sdss' and 'path' not in req['kw']:
            out.count('req_sdss_redux')
        # ---- spec_append contract on the calls readspec made
        for rec in self.append_log[nlog:]:
            out.count('append_calls_inside_readspec')
            check_append(rec, out, 'inside readspec, request %d' % qi)
        # ---- the returned structure
        if not out.expect(isinstance(r, dict), 'keys', 'readspec did not return a dict', **ctx):
            return
        need = list(IMAGES) + ['loglam', 'plugmap'] + (['zans'] if t['zbest'] else []) + (['tsobj'] if t['photoplate'] else [])
        missing = [k for k in need if k not in r]
        if not out.expect(not missing, 'keys', 'returned dict lacks %s although the tree holds the files' % missing, **ctx):
            return
        flux = np.asarray(r['flux'])
        if not out.expect(flux.ndim == 2 and flux.shape[0] == n, 'row-count',
                          'flux has shape %s for %d requests' % (flux.shape, n), **ctx):
            return
        if not ordered:
            # several plates, all fibres: the property defines no order; identify the rows from flux[:, 0]
            d = T.image_decode(flux[:, 0])
            obs = []
            for i in range(n):
                fi = int(d['file'][i])
                byindex = {rc['index']: rc for rc in desc['files']}
                if not d['valid'][i] or fi not in byindex:
                    out.fail('row-identity', 'flux row %d does not come from the requested tree' % i, **ctx)
                    return
                obs.append((byindex[fi]['plate'], byindex[fi]['mjd'], int(d['fibre'][i])))
            if not out.expect(sorted(obs) == sorted(trip), 'row-identity',
                              'all-fibres request: the multiset of returned rows is not plates x fibres', **ctx):
                return
            trip = obs
        recs = [T.file_of(desc, p, m) for p, m, f in trip]
        fibs = np.array([f for p, m, f in trip])
        npixs = np.array([rc['npix'] for rc in recs])
        fidx = np.array([rc['index'] for rc in recs])
        maxpix = int(npixs.max())
        out.count('rows', n)
        out.count('rows_zero_padded', int((npixs < maxpix).sum()))
        width = flux.shape[1]
        if not out.expect(width >= maxpix, 'unshifted-zero-padded',
                          'images are %d pixels wide, longest requested spectrum has %d' % (width, maxpix), **ctx):
            return
        pix = np.arange(width)[None, :]
        inside = pix < npixs[:, None]
        for name in IMAGES:
            a = np.asarray(r[name])
            if not out.expect(a.shape == (n, width), 'row-count', '%s has shape %s, flux %s' % (name, a.shape, flux.shape), **ctx):
                continue
            exp = np.where(inside, T.image_code(fidx[:, None], name, fibs[:, None], pix), 0)
            bad = a != exp
            out.count('cells_compared', int(a.size))
            if bad.any():
                i, p = [int(x[0]) for x in np.nonzero(bad)]
                d = T.image_decode(a[i, p])
                if d['valid']:
                    fi = int(d['file'])
                    src = {rc['index']: rc for rc in desc['files']}.get(fi)
                    other = {rc['index']: rc for rc in decoy['files']}.get(fi) if decoy else None
                    got = 'file #%d (%s plate %s mjd %s) HDU %d fibre %d pixel %d' % (
                        fi, 'tree' if src else 'the OTHER (decoy/twin) tree', (src or other or {}).get('plate'),
                        (src or other or {}).get('mjd'),
                        int(d['hdu']), int(d['fibre']), int(d['pixel']))
                    same_row = (fi == fidx[i] and int(d['fibre']) == fibs[i] and int(d['hdu']) == T.IMAGE_HDU[name])
                else:
                    got = 'value %r (no id)' % (a[i, p].item(),)
                    same_row = True
                clause = 'unshifted-zero-padded' if same_row else 'row-identity'
                out.fail(clause, '%s[%d, %d] holds %s; request %d is plate %d mjd %d fibre %d (HDU %d, %d pixels): expected %s'
                         % (name, i, p, got, i, trip[i][0], trip[i][1], trip[i][2], T.IMAGE_HDU[name], npixs[i],
                            'pixel %d' % p if p < npixs[i] else 'zero padding'),
                         bad_cells=int(bad.sum()), bad_rows=int(bad.any(axis=1).sum()), **ctx)
        # ---- wavelengths
        ll = np.asarray(r['loglam'])
        if out.expect(ll.shape == (n, width), 'row-count', 'loglam has shape %s, flux %s' % (ll.shape, flux.shape), **ctx):
            c0 = np.array([rc['coeff0'] for rc in recs])[:, None]
            c1 = np.array([rc['coeff1'] for rc in recs])[:, None]
            exp = c0 + c1 * pix
            okin = np.abs(ll - exp) <= LOGLAM_TOL
            okout = okin | (ll == 0)
            bad = np.where(inside, ~okin, ~okout)
            out.count('loglam_rows', n)
            # what else the headers of the requested files say about the wavelength axis (expectation: COEFF0/COEFF1, HDU 0)
            for rc in {rc['index']: rc for rc in recs}.values():
                hd = rc.get('header')
                if hd:
                    out.count('hdr_files_wcs_' + hd['style'])
                    if hd['other_hdus']:
                        out.count('hdr_files_other_hdus_repeat_coeff0')
            if bad.any():
                i, p = [int(x[0]) for x in np.nonzero(bad)]
                out.fail('loglam', 'loglam[%d, %d] = %r, COEFF0 + COEFF1*pixel = %r (plate %d mjd %d, %d pixels)'
                         % (i, p, float(ll[i, p]), float(exp[i, p]), trip[i][0], trip[i][1], npixs[i]),
                         bad_cells=int(bad.sum()), **ctx)
        # ---- tables
        for key, table in (('plugmap', 'plugmap'), ('zans', 'zbest'), ('tsobj', 'photoplate')):
            if key not in need:
                continue
            tab = r[key]
            if not out.expect(isinstance(tab, dict), 'keys', '%s is not a dict of columns' % key, **ctx):
                continue
            # the file read first (lowest plate-MJD key) fixes nothing: a later file may hold wider values
            first = min(recs, key=lambda rc: (rc['plate'] << 16) + rc['mjd'])
            varied = first.get('tab') is not None
            if varied and len({tuple(rc['tab'][table]['order']) for rc in recs}) > 1:
                out.count('tab_column_order_differs')
            for cname, kind in T.table_columns(desc, table):
                if not out.expect(cname in tab, 'keys', '%s lacks column %s' % (key, cname), **ctx):
                    continue
                col = np.asarray(tab[cname])
                if not out.expect(col.shape[:1] == (n,), 'row-count', '%s[%s] has shape %s for %d requests'
                                  % (key, cname, col.shape, n), **ctx):
                    continue
                exp = [T.table_cell(rc, table, cname, int(f)) for rc, f in zip(recs, fibs)]
                if varied and kind in ('s', 'vi', 'vf'):
                    later = [v for v, rc in zip(exp, recs) if rc is not first]
                    if kind == 's':
                        wkey = (first['index'], table, cname)
                        if wkey not in self._width:
                            self._width[wkey] = max(len(T.table_cell(first, table, cname, f))
                                                    for f in range(1, first['nfiber'] + 1))
                        if any(len(v) > self._width[wkey] for v in later):
                            out.count('tab_string_wider_than_first_file_' + key)
                    elif kind == 'vi':
                        lim = {'i2': 2**15, 'i4': 2**31, 'i8': 2**63}[first['tab'][table]['fmt'][cname]]
                        if any(v >= lim for v in later):
                            out.count('tab_int_wider_than_first_file_' + key)
                    elif first['tab'][table]['fmt'][cname] == 'f4' and any(float(np.float32(v)) != v for v in later):
                        out.count('tab_float_wider_than_first_file_' + key)
                if kind == 's':
                    # full value: only the blank padding of the fixed-width FITS field is stripped
                    got = [(x.decode('latin-1') if isinstance(x, bytes) else str(x)).rstrip(' ') for x in col.tolist()]
                    badrows = [i for i in range(n) if got[i] != exp[i]]
                else:
                    exp = np.array(exp)
                    if not out.expect(col.shape == exp.shape, 'row-count', '%s[%s] has shape %s, expected %s'
                                      % (key, cname, col.shape, exp.shape), **ctx):
                        continue
                    neq = col != exp
                    badrows = np.nonzero(neq.reshape(n, -1).any(axis=1))[0].tolist()
                    if kind == 'd5':
                        out.count('table_cells_2d', int(col.size))
                out.count('table_cells_compared', int(col.size))
                if badrows:
                    i = badrows[0]
                    g = col[i]
                    if kind in ('i', 'd', 'd5'):
                        d = T.table_decode(np.ravel(g)[0])
                        g = 'file #%d table %d column %d fibre %d' % (int(d['file']), int(d['table']), int(d['column']),
                                                                       int(d['fibre'])) if d['valid'] else repr(g)
                    out.fail('table-row', '%s[%s][%d] holds %s; request %d is plate %d mjd %d fibre %d (file #%d)'
                             % (key, cname, i, g, i, trip[i][0], trip[i][1], trip[i][2], fidx[i]),
                             bad_rows=len(badrows), **ctx)
            if key == 'zans':
                out.count('zans_rows', n)
            if key == 'tsobj':
                out.count('tsobj_rows', n)
                if t['photoplate'] == 'match':
                    out.count('tsobj_rows_match_location', n)

    def run_append(self, case, out):
        S = self.S
        dt = case['dtype']
        arrs = []
        # ids that a narrower float could not hold: a result array of another dtype than the inputs' loses them
        start = {'f4': 1, 'i4': 2**24 + 1, 'f8': 2**24 + 1, 'i8': 2**53 + 1}[dt]
        for r, c in case['blocks']:
            arrs.append((start + np.arange(r * c)).reshape(r, c).astype(dt))
            start += r * c
        acc = arrs[0]
        nt = False
        for k in range(1, len(arrs)):
            ps = case['shifts'][k - 1]
            nlog = len(self.append_log)
            if ps == 0 and case['omit_zero_shift']:
                res = S.spec_append(acc, arrs[k])
            else:
                res = S.spec_append(acc, arrs[k], pixshift=mat(ps, case['shift_form']))
            recs = self.append_log[nlog:]
            if not out.expect(len(recs) == 1 and recs[0][5] is res, 'harness-error', 'contract wrapper did not see the call'):
                return
            if ps != 0 and acc.shape[1] != arrs[k].shape[1]:
                nt = True
            if not check_append(recs[0], out, 'direct call, step %d' % k):
                break
            acc = res
        out.nontrivial = nt

    def summarise(self, case):
        if case['kind'] != 'readspec':
            return case
        c = dict(case)
        if 'stages' in case:
            c['stages'] = [{'ops': st['ops'], 'requests': st['requests'][:1], 'n_requests': len(st['requests'])}
                           for st in case['stages'][:3]]
            return c
        c['requests'] = case['requests'][:2]
        c['n_requests'] = len(case['requests'])
        return c


CHECK = C16()
