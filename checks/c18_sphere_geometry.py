"""C18 - great-circle distance and SDSS great-circle (mu, nu) coordinates are geometrically exact;
angles <-> unit-vector conversions are mutual inverses.

Events : gcirc(units 0/1/2; arrays, 2-D arrays, scalars, scalar-vs-array broadcasting);
         SkyCoord / frame .transform_to(SDSSMuNu(stripe=s)) and back (the transforms registered with astropy), also on ONE object
         that is edited in place (item assignment) between transforms, on edited results and on objects that inherit a dead one's id;
         stripe_to_eta / stripe_to_incl / SDSSMuNu.incl;  angles_to_x / x_to_angles.
Oracle : long-double (80 bit) spherical geometry in vlib/refs/sphere.py, evaluated on the float64 values that
         were actually passed: chord-formula separation (cross-checked against atan2(|a x b|, a.b) and against the
         separation the pair was *constructed* at), an explicit orthonormal triad (node, 90 deg along the circle,
         pole) for the mu/nu frame, atan2-based angles of a vector.

Tolerances (all in radians; derivations in RULE / ASSUMPTIONS and /verif/reports/c18.md)
  gcirc     |g - ref| <= 1e-6*ref + 3e-13      (property: relative 1e-6; floor = 100 x the 3e-15 rad that
                                                  converting four float64 coordinates to radians one by one costs)
  position  tol(c) = 2e-13 + min(5e-14/c, 3e-6), c = cos(latitude that is recovered by asin/acos):
            asin/acos amplify the ~3e-16 rounding of their argument by 1/c, saturating at sqrt(2*3e-16) = 2.4e-8
            on the pole itself; 2e-13 = 100 x the quantisation of a longitude near 360 deg.
"""
import numpy as np
from vlib.harness import Check, np_rng
from vlib.refs import sphere as S

LD = np.longdouble
PI = float(np.pi)
MUAS = float(np.radians(1e-6 / 3600.0))          # one micro-arcsecond in radians (4.85e-12)
REL = 1e-6
FLOOR = 3e-13
NODE = 95.0
DECADES = list(range(-12, 1))


def tol_pos(c):
    """Positional tolerance (rad) for a point whose latitude-like angle is recovered through asin/acos
    with cos(latitude) = c."""
    c = np.maximum(np.asarray(c, dtype=np.float64), 1e-300)
    return 2e-13 + np.minimum(5e-14 / c, 3e-6)


def f64(x):
    return np.asarray(x, dtype=np.float64)


def lst(x):
    return np.asarray(x, dtype=np.float64).tolist()


class C18(Check):
    ID = 'C18'
    MIN_NONTRIVIAL = 20
    RULE = ('gcirc: batches of 500-1000 point pairs, the second point *constructed* in long double at a known '
            'separation (log-uniform 1 micro-arcsecond .. 180 deg) and position angle from the first; classes: whole '
            'sphere, declination exactly +-90 and 1e-13..1 deg from a pole, both points on poles, RA seam (0.0 / 360.0 / '
            'within 1e-13..1 deg, pairs crossing it), coincident (bit-identical, 1-4 ulp apart, 0 vs 360, one pole with '
            'two RAs), antipodal (exact: dec2=-dec1, ra2=ra1+180 with dyadic RA; 1e-16..1e-3 deg short of it; pole to '
            'pole), cardinal 15-degree grid; integer-valued coordinates (whole hours 0..24 / degrees 0..360 / radians 0..6) '
            'held as int8, uint8, int16, uint16, int32, uint32, int64, uint64 arrays, numpy scalars and Python ints, RAs '
            'only or all four arguments typed, compared with the long-double reference and with the float64 call for the '
            'same values and across the conventions; '
            'equivalent RA spellings (class gcx_raspelling): negative RA, RA-360, RA+360, RA+-720, [-180,180) longitudes, '
            'pairs straddling RA=0 written -x/+y, positions within 1e-12..1e-2 deg of (0,0), separations 1 micro-arcsecond '
            'upwards, with the coordinate-scaled floor 200*eps*(|ra1|+|ra2|+|dec1|+|dec2|) instead of the global one; '
            'batches of exactly 1, 2, 3, 4, 5 generic points through angles_to_x / x_to_angles (class angvec_smallbatch: '
            '(2,2) angle arrays and (3,3) vector arrays are shapes whose two axes can be confused); '
            'broadcasting: each of the four arguments independently Python float / numpy scalar / 0-d array / length-1 / '
            'length-n array in all 16 scalar-array patterns plus column-against-row, result shape = broadcast shape '
            '(scalars in -> scalar out), every value = reference and = the scalar call of that pair.  '
            'Every batch is evaluated in all three unit conventions (hours = deg/15, '
            'radians = numpy.radians(deg), each with its own reference on the re-quantised float64 inputs), in both '
            'argument orders, against itself, as 2-D array, as Python scalars and scalar-vs-array.  '
            'mu/nu: every stripe 0..90 (case i uses stripe i mod 91) through astropy transform_to in both directions: '
            '300-400 points per direction incl. ICRS poles, the frame poles (1e-12..0.1 rad around them and exactly), '
            'node axis, RA/mu seam, each with a partner constructed at a log-uniform separation; round trip, pairwise '
            'separations (partner and random far pairs), agreement with the explicit triad model whose inclination is '
            'stripe_to_incl(stripe) and whose node is RA 95; nu=0 circle against Dec = asin(sin i sin t), '
            'RA = 95 + atan2(cos i sin t, cos t); pole of the circle; stripe_to_eta/incl against the SDSS definition.  '
            'angles<->vectors: (phi, theta) and (RA, Dec) float64 arrays (phi in [-360, 720], exact poles, 1e-13..1 deg '
            'from them), integer-degree arrays, correctly rounded unit vectors, numpy-normalised (v/|v|) unit vectors '
            '3e-9..5e-8 rad from a pole, integer axis vectors; both compositions.  '
            'mu/nu representation flavours (class munu_flavours, every stripe, 40 directions per system incl. 6 on the nu=0 '
            'circle and both systems\' poles, both transform directions): the same directions handed over as unit-spherical '
            'data, spherical with per-point distances (1e-6..1e6, in kpc/pc/AU/lyr/m or dimensionless), with one scalar '
            'distance, as un-normalised CartesianRepresentation (with and without unit), as explicit '
            'UnitSphericalRepresentation, as SkyCoord with obstime riding along, as scalar coordinate; SkyCoord and bare '
            'frames; objects derived by slice / reverse / boolean mask / reshape / T / ravel / copy / integer index from '
            'sources and from transform results; for each: rotation model, round trip of the direction, neighbour '
            'separations, nu=0 circle, repeat, source data unmodified, and a returned distance must equal the given one.  '
            'The caller\'s coordinate object edited in place (class munu_inplace, every stripe): an ICRS frame, an ICRS SkyCoord, an '
            'SDSSMuNu frame and an SDSSMuNu SkyCoord of 8-60 points (one of them of shape (2, n/2)) are transformed (ICRS objects to the '
            'stripe and, in the sibling history, to a second stripe; (mu,nu) objects to ICRS, with another (mu,nu) object of a second '
            'stripe transformed in between), then four times given new positions IN THE SAME OBJECT by item assignment - one element '
            '(also negative index), a slice (steps 1, 2, -1, negative bounds), everything ([:] / [...]), a boolean mask, an integer index '
            'array; the value an array of positions, or one position broadcast; unrelated positions (incl. both systems\' poles), '
            'corrections of 1e-10..1e-2 rad, or only one of the two coordinates changed - and transformed again after every edit in one of '
            'three histories (same stripe / other stripe first / first, other, first again; in the last two the caller also keeps and '
            'reuses the target frame objects).  Every answer is judged against the rotation '
            'model of what the object reads at that moment, for neighbour separations and for the source reading unchanged; after the '
            'whole history (so that nothing the oracle does sits between the caller\'s transforms) every answer must still read as at first, '
            'transform back to what the object held, and equal the answer for a freshly built object of the same content; two of the '
            'results are then themselves reversed in place and sent back; finally the object is dropped and five objects of the same '
            'shape are built, transformed and dropped in turn (they take over the id of a dead one; some repeat its longitudes with '
            'other latitudes).  '
            'Non-trivial: gcirc batch containing distinct points (reference separation > 0); mu/nu case of a stripe '
            'with non-zero inclination (stripes 10 and 82 are the identity rotation); angle/vector batch with points '
            'off the poles.  Distinct by hash of the materialised float64 input.')
    ASSUMPTIONS = [
        'numpy.longdouble is the x87 80-bit type (eps 1.08e-19); the run is INCONCLUSIVE otherwise',
        'gcirc tolerance |g-ref| <= 1e-6*ref + 3e-13 rad: relative part from the property text; the additive floor '
        '(0.06 micro-arcsecond) is 100x the worst-case 3e-15 rad error of converting four float64 coordinates to radians separately '
        '(observed <= 1.6e-15 rad in hours, 8.7e-16 in degrees, 4.3e-16 in radians over 4e5 pairs)',
        'near the antipode the haversine arcsin is ill conditioned: observed error <= 3.7e-8 rad = 1.2e-8 relative '
        '(85x below the property\'s 1e-6); the tolerance there is the property\'s, not derived',
        'positional tolerance tol(c) = 2e-13 + min(5e-14/c, 3e-6) rad with c = cos(latitude recovered through '
        'asin/acos); observed error*c <= 3.3e-16 near poles, error <= 1.7e-13 for c > 1e-3, <= 2.1e-8 on the pole',
        'symmetry asserted to 1e-12 relative + floor (observed: bit-identical); identical points must give exactly 0',
        'range: 0 <= distance <= 180 deg * (1 + 1e-15) in the units of the convention',
        'stripes are Python ints; node is the frame default (95 deg); non-default node is outside the property',
        'integer-typed gcirc input (int8..uint64 arrays and numpy scalars, Python ints; RAs only or all four typed) is '
        'asserted in all three conventions against the long-double reference and the float64 call (finding F-G8, fixed: '
        'before, numpy.deg2rad of 8/16-bit integers computed in float16/float32 and unsigned RA differences wrapped at units=0)',
        'gcx_raspelling tolerance |g-ref| <= 1e-6*ref + 200*eps*(|ra1|+|ra2|+|dec1|+|dec2|) (radians): the only absolute '
        'error of a formula that converts each coordinate separately is the rounding of that conversion, eps*|coordinate| '
        '(two roundings for hours); for in-range coordinates this is the global 3e-13 floor, for small coordinates it is far '
        'tighter and for RA beyond one turn proportionally wider',
        'munu_inplace: in-place change means astropy\'s item assignment (obj[index] = coordinate object of an equivalent frame), which '
        'clears astropy\'s own per-object cache; writing through a Quantity shared with copy=False or into obj.data is outside the domain '
        '(astropy itself then reads stale attributes).  The oracle speaks about what the object reads (ra/dec or mu/nu, copied) at the '
        'moment it is handed to transform_to; the check verifies that this equals the assigned positions (harness-error otherwise).  '
        'SDSSMuNu -> SDSSMuNu of another stripe is not exercised (astropy relabels the data without a registered self-transform)',
        'buffer-reuse monitor (vlib/brd.py) attached to gcirc, angles_to_x, x_to_angles (every 3rd call, <= 3 differentials per case, result '
        'ownership on); brd_differentials is a required counter.  It cannot reach radec_to_munu / munu_to_radec (astropy holds the '
        'functions registered at import time), which is what class munu_inplace is for',
        'unit vectors: float64 vectors whose norm is within 2 ulp of 1 (correctly rounded from long double, or '
        'numpy v/numpy.linalg.norm(v)); angle arrays: float64, int64, int32',
    ]
    REQUIRED_COUNTERS = tuple(['gc_pairs', 'gc_units0_evals', 'gc_units1_evals', 'gc_units2_evals',
                               'gc_exact_pole_points', 'gc_seam_crossing_pairs', 'gc_identical_pairs',
                               'gc_exact_antipodal_pairs', 'gc_within_1e-6rad_of_antipode', 'gc_scalar_calls',
                               'munu_stripe_le_46', 'munu_stripe_gt_46', 'munu_points_fw', 'munu_points_bw',
                               'munu_frame_pole_points', 'munu_icrs_pole_points', 'munu_circle_points',
                               'ang_points', 'ang_exact_pole_points', 'ang_int_points', 'vec_points',
                               'vec_within_1e-7rad_of_pole',
                               'munu_source_unmodified_checks', 'munu_repeat_transforms', 'munu_repeat_bit_identical',
                               'munu_other_stripe_transforms', 'munu_object_roundtrips',
                               'gc_input_unmodified_checks', 'gc_repeat_calls', 'gc_repeat_bit_identical',
                               'ang_input_unmodified_checks', 'ang_repeat_calls',
                               'flav_transforms', 'flav_points', 'flav_skycoord_objects', 'flav_frame_objects',
                               'flav_scalar_objects', 'flav_derived_objects', 'flav_derived_from_result_objects',
                               'flav_points_with_distance', 'flav_distance_lt_1', 'flav_distance_gt_1e3',
                               'flav_scalar_distance_objects', 'flav_dimensionless_distance_objects',
                               'flav_cartesian_unnormalised_points', 'flav_obstime_objects',
                               'flav_source_unmodified_checks', 'flav_on_circle_points',
                               'gci_asserted_calls', 'gci_asserted_pairs', 'gci_int8_hours_ge_9', 'gci_uint8_hours_ge_18',
                               'gci_numpy_scalar_calls', 'gci_python_int_calls', 'gci_unit_convention_checks',
                               'gci_units0_asserted_calls', 'gci_units1_asserted_calls', 'gci_units2_asserted_calls',
                               'gcb_calls', 'gcb_pairs', 'gcb_all_scalar_calls', 'gcb_scalar_ra_array_dec_calls',
                               'gcb_array_ra_scalar_dec_calls', 'gcb_outer_calls', 'gcb_python_float_args',
                               'gcb_numpy_scalar_args', 'gcb_0d_array_args', 'gcb_length1_array_args', 'gcb_scalar_call_comparisons',
                               'gcs_pairs', 'gcs_negative_ra_pairs', 'gcs_negative_ra_sep_below_1e-9rad', 'gcs_straddling_ra0_pairs',
                               'gcs_ra_beyond_one_turn_pairs', 'gcs_all_coordinates_below_1e-4rad_pairs', 'gcs_sep_below_1e-10rad',
                               'small_batches_n1', 'small_batches_n2', 'small_batches_n3', 'small_batches_n4', 'small_batches_n5',
                               'small_x_to_angles_3x3_calls', 'small_angles_to_x_2x2_calls',
                               'brd_differentials',
                               'inpl_edits', 'inpl_element_edits', 'inpl_slice_edits', 'inpl_all_edits', 'inpl_mask_edits',
                               'inpl_fancy_edits', 'inpl_broadcast_value_edits', 'inpl_frame_objects', 'inpl_skycoord_objects',
                               'inpl_2d_objects', 'inpl_transforms_after_edit_icrs', 'inpl_transforms_after_edit_munu',
                               'inpl_points_moved_detectably', 'inpl_points_moved_lt_1e-6rad',
                               'inpl_points_longitude_only_changed', 'inpl_points_latitude_only_changed',
                               'inpl_history_same', 'inpl_history_other_first', 'inpl_history_sibling',
                               'inpl_companion_transforms', 'inpl_fresh_object_comparisons', 'inpl_roundtrips',
                               'inpl_results_alive_checks', 'inpl_result_edits', 'inpl_successor_objects_same_id',
                               'inpl_target_frame_reuses']
                              + ['gc_sep_decade_1e%+d' % d for d in DECADES])
    REQUIRED_REACH = {'astro.gcirc': 0.85, 'coord.stripe_to_eta': 1.0, 'coord.stripe_to_incl': 1.0,
                      'coord.radec_to_munu': 1.0, 'coord.munu_to_radec': 1.0,
                      'mangle.angles_to_x': 1.0, 'mangle.x_to_angles': 1.0}

    # ------------------------------------------------------------------ setup
    def setup(self):
        import astropy.units as u
        import astropy.coordinates as ac
        import pydl.goddard.astro as A
        import pydl.pydlutils.coord as C
        import pydl.pydlutils.mangle as M
        self.A, self.C, self.M, self.u, self.ac = A, C, M, u, ac
        self._margin = {}
        if not S.have_long_double():
            raise RuntimeError('numpy.longdouble is not wider than float64: no independent reference available')
        for f in (A.gcirc, C.stripe_to_eta, C.stripe_to_incl, C.radec_to_munu, C.munu_to_radec,
                  M.angles_to_x, M.x_to_angles):
            self.reach.add(f)
        self.brd.per_case = 3
        self.brd.attach(self.rec, A, 'gcirc', every=3, own=True)
        self.brd.attach(self.rec, M, 'angles_to_x', every=3, own=True)
        self.brd.attach(self.rec, M, 'x_to_angles', every=3, own=True)
        self.rec.wrap(A, 'gcirc')
        self.rec.wrap(C, 'stripe_to_eta')
        self.rec.wrap(C, 'stripe_to_incl')
        self.rec.wrap(M, 'angles_to_x')
        self.rec.wrap(M, 'x_to_angles')

    def teardown(self):
        self.rec.unwrap_all()

    def shard_extra(self):
        return {'x_margin': dict(self._margin)}

    def extra_evidence(self, merged):
        worst = {}
        for d in merged.get('x_margin', []):
            for k, v in d.items():
                worst[k] = max(worst.get(k, 0.0), v)
        return {'worst_error_over_tolerance': {k: float('%.3g' % v) for k, v in sorted(worst.items())}}

    def budget(self, tier):
        q = tier == 'quick'
        return {
            'gc_logsep': 200 if q else 8000,
            'gc_poles': 100 if q else 4000,
            'gc_seam': 100 if q else 4000,
            'gc_coincident': 60 if q else 1600,
            'gc_antipodal': 100 if q else 4000,
            'gc_cardinal': 20 if q else 480,
            'munu_stripes': 91 * 2 if q else 91 * 48,
            'munu_circle': 91 * 2 if q else 91 * 32,
            'ang_roundtrip': 120 if q else 4800,
            'ang_int': 24 if q else 960,
            'vec_roundtrip': 90 if q else 3200,
            'vec_f64norm': 36 if q else 1600,
            'munu_flavours': 91 if q else 91 * 8,
            'gcx_intdtype': 48 if q else 960,
            'gcx_broadcast': 64 if q else 1600,
            'gcx_raspelling': 80 if q else 1600,
            'angvec_smallbatch': 40 if q else 800,
            'munu_inplace': 91 if q else 91 * 8,
        }

    # ------------------------------------------------------------------ generators
    @staticmethod
    def _sphere(g, n):
        return g.uniform(0.0, 360.0, n), np.degrees(np.arcsin(g.uniform(-1.0, 1.0, n)))

    @staticmethod
    def _logsep(g, n, lo=MUAS, hi=PI):
        return np.minimum(10.0 ** g.uniform(np.log10(lo), np.log10(hi), n), PI)

    def gen(self, cls, rng, i):
        g = np_rng(rng)
        if cls == 'gcx_intdtype':
            return self._gen_gci(g, i)
        if cls == 'gcx_raspelling':
            return self._gen_gcs(g, i)
        if cls == 'angvec_smallbatch':
            return self._gen_small(g, i)
        if cls == 'gcx_broadcast':
            return self._gen_gcb(g, i)
        if cls.startswith('gc_'):
            return self._gen_gc(cls, g, i)
        if cls == 'munu_stripes':
            return self._gen_munu(g, i)
        if cls == 'munu_flavours':
            return self._gen_flav(g, i)
        if cls == 'munu_circle':
            return self._gen_circle(g, i)
        if cls == 'munu_inplace':
            return self._gen_inplace(g, i)
        if cls in ('ang_roundtrip', 'ang_int'):
            return self._gen_ang(cls, g, i)
        if cls in ('vec_roundtrip', 'vec_f64norm'):
            return self._gen_vec(cls, g, i)
        raise ValueError(cls)

    def _gen_gc(self, cls, g, i):
        n = 1000 if cls == 'gc_logsep' else 500
        ra1, dec1 = self._sphere(g, n)
        sep = self._logsep(g, n)
        pa = g.uniform(0.0, 2 * PI, n)
        built = np.ones(n, dtype=bool)
        ra2 = dec2 = None
        if cls == 'gc_logsep':
            pass
        elif cls == 'gc_poles':
            k = g.random(n)
            sgn = g.choice([-1.0, 1.0], n)
            dec1 = np.where(k < 0.4, sgn * 90.0, sgn * (90.0 - 10.0 ** g.uniform(-13, 0, n)))
            ra1 = np.where(g.random(n) < 0.1, g.choice([0.0, 360.0, 95.0, 180.0], n), ra1)
            ra2, dec2 = S.offset_point(ra1, dec1, sep, pa)
            both = k >= 0.8                      # both points exactly on poles
            dec1 = np.where(both, sgn * 90.0, dec1)
            same = g.random(n) < 0.5
            ra2 = np.where(both, g.uniform(0, 360, n), ra2)
            dec2 = np.where(both, np.where(same, 1.0, -1.0) * sgn * 90.0, dec2)
            sep = np.where(both, np.where(same, 0.0, PI), sep)
        elif cls == 'gc_seam':
            k = g.random(n)
            eps = 10.0 ** g.uniform(-13, 0, n)
            ra1 = np.select([k < 0.15, k < 0.3, k < 0.65], [0.0, 360.0, eps], 360.0 - eps)
            sep = np.where(g.random(n) < 0.8, self._logsep(g, n, MUAS, np.radians(10.0)), sep)
            pa = np.where(g.random(n) < 0.7, g.choice([0.5 * PI, 1.5 * PI], n) + g.normal(0, 0.2, n), pa)
            ra2, dec2 = S.offset_point(ra1, dec1, sep, pa)
            ra2 = np.where((ra2 == 0.0) & (g.random(n) < 0.5), 360.0, ra2)
            free = g.random(n) < 0.2             # independent points on either side of the seam
            ra1 = np.where(free, g.uniform(350, 360, n), ra1)
            ra2 = np.where(free, g.uniform(0, 10, n), ra2)
            dec2 = np.where(free, self._sphere(g, n)[1], dec2)
            built &= ~free
        elif cls == 'gc_coincident':
            k = g.random(n)
            sgn = g.choice([-1.0, 1.0], n)
            dec1 = np.where(g.random(n) < 0.1, sgn * 90.0, dec1)
            ra1 = np.where(g.random(n) < 0.1, g.choice([0.0, 360.0], n), ra1)
            ra2, dec2 = ra1.copy(), dec1.copy()
            ulp = (k >= 0.4) & (k < 0.7)
            steps = g.integers(1, 5, n)
            dirn = g.choice([-np.inf, np.inf], n)
            onra = g.random(n) < 0.5
            r, d = ra1.copy(), dec1.copy()
            for _ in range(4):
                m = ulp & (steps > 0)
                r = np.where(m & onra, np.nextafter(r, dirn), r)
                d = np.where(m & ~onra, np.nextafter(d, dirn), d)
                steps = steps - 1
            ra2 = np.where(ulp, np.clip(r, 0.0, 360.0), ra2)
            dec2 = np.where(ulp, np.clip(d, -90.0, 90.0), dec2)
            pole = (k >= 0.7) & (k < 0.85)
            dec1 = np.where(pole, sgn * 90.0, dec1)
            dec2 = np.where(pole, sgn * 90.0, dec2)
            ra2 = np.where(pole, g.uniform(0, 360, n), ra2)
            wrap = k >= 0.85
            ra1 = np.where(wrap, 0.0, ra1)
            ra2 = np.where(wrap, 360.0, ra2)
            dec2 = np.where(wrap, dec1, dec2)
            sep = np.where(ulp, np.nan, 0.0)
            built = ~ulp
        elif cls == 'gc_antipodal':
            k = g.random(n)
            exact = k < 0.4
            ra1 = np.where(exact, g.integers(0, 180 * 2 ** 20, n) / 2.0 ** 20, ra1)
            sep = PI - np.radians(10.0 ** g.uniform(-16, -3, n))
            ra2, dec2 = S.offset_point(ra1, dec1, sep, pa)
            ra2 = np.where(exact, ra1 + 180.0, ra2)
            dec2 = np.where(exact, -dec1, dec2)
            pp = k >= 0.9
            sgn = g.choice([-1.0, 1.0], n)
            dec1 = np.where(pp, sgn * 90.0, dec1)
            dec2 = np.where(pp, -sgn * 90.0, dec2)
            ra2 = np.where(pp, g.uniform(0, 360, n), ra2)
            sep = np.where(exact | pp, PI, sep)
        elif cls == 'gc_cardinal':
            ra1 = g.integers(0, 25, n) * 15.0
            dec1 = g.integers(-6, 7, n) * 15.0
            ra2 = g.integers(0, 25, n) * 15.0
            dec2 = g.integers(-6, 7, n) * 15.0
            built[:] = False
        if ra2 is None:
            ra2, dec2 = S.offset_point(ra1, dec1, sep, pa)
        sep = np.where(built, sep, np.nan)
        return {'kind': 'gcirc', 'ra1': lst(ra1), 'dec1': lst(dec1), 'ra2': lst(ra2), 'dec2': lst(dec2),
                'sep': lst(sep)}

    def _frame_points(self, g, n, incl, want_icrs):
        """n points (lon, lat) in degrees: uniform + exact/near poles of both the equatorial system and
        the stripe's system + node axis + longitude seam.  ``want_icrs``: express in ICRS, else in (mu, nu)."""
        lon, lat = self._sphere(g, n)
        k = g.random(n)
        sgn = g.choice([-1.0, 1.0], n)
        lat = np.where(k < 0.04, sgn * 90.0, lat)
        lat = np.where((k >= 0.04) & (k < 0.12), sgn * (90.0 - 10.0 ** g.uniform(-13, 0, n)), lat)
        lon = np.where((k >= 0.12) & (k < 0.18), g.choice([0.0, 360.0, 1e-12, 360 - 1e-12, NODE, NODE + 180.0,
                                                            NODE + 90.0, NODE - 90.0], n), lon)
        lat = np.where((k >= 0.18) & (k < 0.22), 0.0, lat)
        # poles of the *other* system: in ICRS coordinates the frame pole p, in frame coordinates the ICRS pole
        other = (k >= 0.22) & (k < 0.36)
        if other.any():
            nn, q, p = S.munu_triad(incl, NODE)
            th = np.where(g.random(n) < 0.15, 0.0, 10.0 ** g.uniform(-12, -1, n))
            ph = g.uniform(0, 2 * PI, n)
            if want_icrs:
                axis, e1, e2 = p, nn, q
            else:
                # the ICRS z axis expressed in the (n, q, p) frame whose longitude origin is the node
                i = S.to_rad(incl, 'deg')
                axis = np.array([LD(0), np.sin(i), np.cos(i)], dtype=LD)
                e1 = np.array([LD(1), LD(0), LD(0)], dtype=LD)
                e2 = np.array([LD(0), np.cos(i), -np.sin(i)], dtype=LD)
            thl, phl = th.astype(LD), ph.astype(LD)
            v = ((sgn * np.cos(thl))[:, None] * axis + (np.sin(thl) * np.cos(phl))[:, None] * e1
                 + (np.sin(thl) * np.sin(phl))[:, None] * e2)
            lo, la = S.vec_to_lonlat(v)
            lo = (lo / S.D2R).astype(np.float64)
            if not want_icrs:
                lo = lo + NODE
            lo = np.where(lo >= 360.0, lo - 360.0, lo)
            lon = np.where(other, lo, lon)
            lat = np.where(other, np.clip((la / S.D2R).astype(np.float64), -90, 90), lat)
        return lon, lat

    def _gen_munu(self, g, i):
        stripe = i % 91
        incl = S.sdss_incl_deg(stripe)
        n = 300
        out = {'kind': 'munu', 'stripe': stripe}
        for key, icrs in (('icrs', True), ('munu', False)):
            lon, lat = self._frame_points(g, n, incl, icrs)
            sep = self._logsep(g, n)
            pa = g.uniform(0, 2 * PI, n)
            lon2, lat2 = S.offset_point(lon, lat, sep, pa)
            if not icrs:
                neg = g.random(2 * n) < 0.1          # mu is also handed over outside [0, 360)
                allmu = np.concatenate([lon, lon2])
                allmu = np.where(neg, allmu - 360.0, allmu)
                lon, lon2 = allmu[:n], allmu[n:]
            out[key] = {'lon': lst(np.concatenate([lon, lon2])), 'lat': lst(np.concatenate([lat, lat2]))}
        out['frame_api'] = bool(g.random() < 0.3)
        return out

    def _gen_circle(self, g, i):
        stripe = i % 91
        n = 200
        t = g.uniform(-180.0, 360.0, n)
        k = g.random(n)
        t = np.where(k < 0.15, g.choice([0.0, 90.0, 180.0, 270.0, -90.0, 45.0, 360.0 - NODE, -NODE], n), t)
        t = np.where((k >= 0.15) & (k < 0.3), g.choice([0.0, 90.0, 180.0, 270.0], n)
                     + g.choice([-1, 1], n) * 10.0 ** g.uniform(-12, -1, n), t)
        return {'kind': 'circle', 'stripe': stripe, 't': lst(t), 'mu_pole': lst(g.uniform(0, 360, 8))}

    def _gen_gci(self, g, i):
        n = 120
        h1, h2 = g.integers(0, 25, n), g.integers(0, 25, n)
        h1[:8] = [9, 21, 18, 24, 0, 8, 17, 23]                       # around the 8-bit limits of 15*h
        h2[:8] = [10, 3, 23, 12, 24, 9, 18, 0]
        d1, d2 = g.integers(-90, 91, n), g.integers(-90, 91, n)
        d1[:4] = [90, -90, 0, 89]
        k = g.random(n)
        h2 = np.where(k < 0.1, h1, h2)
        d2 = np.where(k < 0.05, d1, d2)
        return {'kind': 'gci', 'h1': h1.tolist(), 'd1': d1.tolist(), 'h2': h2.tolist(), 'd2': d2.tolist(),
                'r1': g.integers(0, 7, n).tolist(), 'e1': g.integers(-1, 2, n).tolist(),
                'r2': g.integers(0, 7, n).tolist(), 'e2': g.integers(-1, 2, n).tolist()}

    def _gen_gcs(self, g, i):
        n = 500
        k = g.random(n)
        sgn = lambda: g.choice([-1.0, 1.0], n)                     # noqa: E731
        ra1, dec1 = self._sphere(g, n)
        near0 = k < 0.5                                             # all coordinates small: the code is nearly exact here
        ra1 = np.where(near0, sgn() * 10.0 ** g.uniform(-12, -2, n), ra1)
        dec1 = np.where(near0, sgn() * 10.0 ** g.uniform(-12, -2, n), dec1)
        smallra = (k >= 0.5) & (k < 0.75)                           # RA small (either sign), Dec anywhere
        ra1 = np.where(smallra, sgn() * 10.0 ** g.uniform(-12, 0, n), ra1)
        sep = np.where(g.random(n) < 0.8, self._logsep(g, n, MUAS, 1e-4), self._logsep(g, n))
        pa = g.uniform(0, 2 * PI, n)
        pa = np.where(g.random(n) < 0.5, g.choice([0.5 * PI, 1.5 * PI], n) + g.normal(0, 0.3, n), pa)
        b = S.offset_vec(ra1, dec1, sep, pa)
        lon = np.arctan2(b[:, 1], b[:, 0])                          # signed longitude: partners of points near RA 0 keep their precision
        lat = np.arctan2(b[:, 2], np.sqrt(b[:, 0] ** 2 + b[:, 1] ** 2))
        ra2 = (lon / S.D2R).astype(np.float64)
        dec2 = np.clip((lat / S.D2R).astype(np.float64), -90.0, 90.0)
        ra2 = np.where(~near0 & ~smallra & (ra2 < 0) & (g.random(n) < 0.5), ra2 + 360.0, ra2)
        # other spellings of the same right ascension (the rounded sum is what is passed, and what the reference sees)
        for ra in (ra1, ra2):
            m = g.random(n)
            far = ~near0 & ~smallra
            ra += np.where(far & (m < 0.2), -360.0, 0.0) + np.where(far & (m >= 0.2) & (m < 0.35), 360.0, 0.0) \
                + np.where(far & (m >= 0.35) & (m < 0.42), 720.0, 0.0) + np.where(far & (m >= 0.42) & (m < 0.5), -720.0, 0.0)
            w = (near0 | smallra) & (m < 0.08)
            ra += np.where(w, g.choice([-360.0, 360.0], n), 0.0)
        return {'kind': 'gcs', 'ra1': lst(ra1), 'dec1': lst(dec1), 'ra2': lst(ra2), 'dec2': lst(dec2), 'sep': lst(sep)}

    def _gen_small(self, g, i):
        sets = []
        for n in (1, 2, 3, 4, 5):
            phi = g.uniform(-180.0, 360.0, n)
            th = np.degrees(np.arccos(g.uniform(-0.999, 0.999, n)))
            v = g.normal(size=(n, 3)).astype(LD)
            v /= np.sqrt((v * v).sum(1))[:, None]
            x = v.astype(np.float64)
            sets.append({'n': n, 'phi': lst(phi), 'theta': lst(th), 'x': [lst(x[:, 0]), lst(x[:, 1]), lst(x[:, 2])]})
        return {'kind': 'small', 'sets': sets}

    def _gen_gcb(self, g, i):
        n = int(g.integers(2, 9))
        ra1, dec1 = self._sphere(g, n)
        sep = self._logsep(g, n)
        ra2, dec2 = S.offset_point(ra1, dec1, sep, g.uniform(0, 2 * PI, n))
        if i % 3 == 0:                                              # a meridian / a parallel: shared coordinate values
            ra2 = np.full(n, ra1[0])
            ra1 = np.full(n, ra1[0])
        forms = []
        for pat in range(16):
            forms.append([int(g.choice([3, 4, 4, 4])) if pat >> k & 1 else int(g.choice([0, 1, 2])) for k in range(4)])
        for f in forms:
            if 4 not in f and 3 in f and g.random() < 0.5:
                f[f.index(3)] = 4
        return {'kind': 'gcb', 'ra1': lst(ra1), 'dec1': lst(dec1), 'ra2': lst(ra2), 'dec2': lst(dec2), 'forms': forms}

    def _gen_flav(self, g, i):
        stripe = i % 91
        incl = S.sdss_incl_deg(stripe)
        n = 40
        case = {'kind': 'flav', 'stripe': stripe}
        for key, icrs in (('icrs', True), ('munu', False)):
            lon, lat = self._frame_points(g, n, incl, icrs)
            t = g.uniform(0.0, 360.0, 6)                      # the first six lie on the stripe's great circle
            if icrs:
                lo, la = S.vec_to_lonlat(S.munu_model(NODE + t, np.zeros(6), incl, NODE))
                lon[:6] = np.mod((lo / S.D2R).astype(np.float64), 360.0)
                lat[:6] = (la / S.D2R).astype(np.float64)
            else:
                lon[:6] = np.mod(NODE + t, 360.0)
                lat[:6] = 0.0
            case[key] = {'lon': lst(lon), 'lat': lst(lat)}
        d = 10.0 ** g.uniform(-6, 6, n)
        d[g.integers(0, n, 3)] = 1.0
        mask = g.random(n) < 0.5
        mask[:2] = True
        case.update(dist=lst(d), sdist=float(10.0 ** g.uniform(-3, 3)), unit=str(g.choice(['kpc', 'pc', 'AU', 'lyr', 'm'])),
                    mask=[bool(t) for t in mask], scalar_index=int(g.integers(0, n)))
        return case

    # in-place edits of a coordinate object between two transforms (class munu_inplace)
    INPLACE_MODES = ('element', 'slice', 'all', 'mask', 'fancy')

    @staticmethod
    def _gen_index(g, mode, shape):
        """JSON description of a numpy-style index into an object of ``shape`` (1-D or (2, h))."""
        n = shape[-1]

        def sl():
            a = int(g.integers(0, n - 1))
            b = int(g.integers(a + 1, n + 1))
            step = int(g.choice([1, 1, 2, -1]))
            if step < 0:
                return {'t': 'slice', 'v': [b - 1, (a - 1) if a > 0 else None, -1]}
            if g.random() < 0.3:
                return {'t': 'slice', 'v': [a - n if a else None, None if b == n else b - n, step]}    # negative bounds
            return {'t': 'slice', 'v': [a, b, step]}
        if mode == 'all':
            return {'t': str(g.choice(['all', 'ellipsis']))}
        if len(shape) == 1:
            if mode == 'element':
                return {'t': 'int', 'v': int(g.integers(-n, n))}
            if mode == 'slice':
                return sl()
            if mode == 'mask':
                m = g.random(n) < g.choice([0.1, 0.5, 0.9])
                m[int(g.integers(0, n))] = True
                return {'t': 'mask', 'v': [bool(t) for t in m]}
            k = int(g.integers(1, max(2, n // 2)))
            v = g.permutation(n)[:k]
            v = np.where(g.random(k) < 0.3, v - n, v)
            return {'t': 'fancy', 'v': [int(t) for t in v]}
        r = shape[0]
        if mode == 'element':
            return {'t': 'tuple', 'v': [{'t': 'int', 'v': int(g.integers(-r, r))}, {'t': 'int', 'v': int(g.integers(-n, n))}]}
        if mode == 'slice':
            first = {'t': 'int', 'v': int(g.integers(0, r))} if g.random() < 0.5 else {'t': 'all'}
            return {'t': 'tuple', 'v': [first, sl()]}
        if mode == 'mask':
            m = g.random(shape) < g.choice([0.1, 0.5, 0.9])
            m[int(g.integers(0, r)), int(g.integers(0, n))] = True
            return {'t': 'mask', 'v': [[bool(t) for t in row] for row in m]}
        k = int(g.integers(1, max(2, r * n // 2)))
        rr, cc = np.unravel_index(g.permutation(r * n)[:k], shape)
        return {'t': 'tuple', 'v': [{'t': 'fancy', 'v': [int(t) for t in rr]}, {'t': 'fancy', 'v': [int(t) for t in cc]}]}

    @classmethod
    def _idx(cls, spec):
        t = spec['t']
        if t == 'int':
            return int(spec['v'])
        if t == 'slice':
            return slice(*spec['v'])
        if t == 'all':
            return slice(None)
        if t == 'ellipsis':
            return Ellipsis
        if t == 'mask':
            return np.asarray(spec['v'], dtype=bool)
        if t == 'fancy':
            return np.asarray(spec['v'], dtype=np.intp)
        if t == 'tuple':
            return tuple(cls._idx(x) for x in spec['v'])
        raise ValueError(t)

    def _gen_inplace(self, g, i):
        stripe = i % 91
        incl = S.sdss_incl_deg(stripe)
        s2 = int((stripe + 1 + g.integers(0, 90)) % 91)                   # another stripe, never the same one
        objs = []
        order = g.permutation(3)
        for k, (system, api) in enumerate((('icrs', 'frame'), ('icrs', 'skycoord'), ('munu', 'frame'), ('munu', 'skycoord'))):
            icrs = system == 'icrs'
            n = int(g.choice([8, 16, 30, 60]))
            shape = (2, n // 2) if (i + k) % 4 == 3 else (n,)
            lon, lat = self._frame_points(g, n, incl, icrs)
            lon = np.where(lon >= 360.0, 0.0, lon)
            cl, cb = lon.reshape(shape).copy(), lat.reshape(shape).copy()
            edits = []
            for mode in g.permutation(list(self.INPLACE_MODES))[:4]:
                spec = self._gen_index(g, str(mode), shape)
                idx = self._idx(spec)
                sel = cl[idx]
                vshape = list(np.shape(sel))
                m = int(np.size(sel))
                style = g.random()
                if m > 1 and style < 0.2:                                 # one position broadcast into the selection
                    vl, vb = self._frame_points(g, 1, incl, icrs)
                    vl, vb, vshape = vl[0], vb[0], []
                elif style < 0.55:                                        # small corrections of the positions held there
                    vl, vb = S.offset_point(np.reshape(sel, -1), np.reshape(cb[idx], -1),
                                            10.0 ** g.uniform(-10, -2, m), g.uniform(0, 2 * PI, m))
                else:                                                     # unrelated positions (incl. poles of both systems, seam, node)
                    vl, vb = self._frame_points(g, max(m, 1), incl, icrs)
                    vl, vb = vl[:m], vb[:m]
                    if style > 0.8:                                       # ... of which only one coordinate changes
                        if style > 0.9:
                            vl = np.reshape(sel, -1).copy()
                        else:
                            vb = np.reshape(cb[idx], -1).copy()
                vl = np.mod(np.asarray(vl, dtype=np.float64), 360.0)
                vl = np.where(vl >= 360.0, 0.0, vl) + 0.0
                vb = np.asarray(vb, dtype=np.float64)
                cl[idx] = vl.reshape(vshape)
                cb[idx] = vb.reshape(vshape)
                edits.append({'mode': str(mode), 'index': spec, 'vshape': vshape,
                              'lon': lst(np.reshape(vl, -1)), 'lat': lst(np.reshape(vb, -1))})
            objs.append({'system': system, 'api': api, 'shape': list(shape), 'lon': lst(lon), 'lat': lst(lat),
                         'history': ('same', 'other-first', 'sibling')[int(order[k % 3]) if k < 3 else int(g.integers(0, 3))],
                         'edits': edits})
        return {'kind': 'inplace', 'stripe': stripe, 'stripe2': s2, 'objs': objs}

    def _gen_ang(self, cls, g, i):
        lat = bool(i % 2)
        if cls == 'ang_int':
            n = 300
            dt = 'int32' if (i // 2) % 2 else 'int64'
            phi = g.integers(-360, 721, n)
            th = g.integers(0, 181, n)
            th[:20] = g.choice([0, 180, 90], 20)
            phi[:40] = g.choice([0, 360, 180, 90, 270, -90], 40)
            second = 90 - th if lat else th
            return {'kind': 'ang', 'latitude': lat, 'dtype': dt, 'phi': phi.tolist(), 'second': second.tolist()}
        n = 500
        phi = g.uniform(0.0, 360.0, n)
        th = np.degrees(np.arccos(g.uniform(-1, 1, n)))
        k = g.random(n)
        end = g.choice([0.0, 180.0], n)
        th = np.where(k < 0.06, end, th)
        th = np.where((k >= 0.06) & (k < 0.2), np.abs(end - 10.0 ** g.uniform(-13, 0, n)), th)
        th = np.where((k >= 0.2) & (k < 0.24), 90.0, th)
        phi = np.where((k >= 0.24) & (k < 0.32), g.choice([0.0, 360.0, 180.0, 90.0, 270.0, 1e-13, 360 - 1e-13], n), phi)
        phi = np.where((k >= 0.32) & (k < 0.42), g.uniform(-360.0, 720.0, n), phi)
        second = 90.0 - th if lat else th
        return {'kind': 'ang', 'latitude': lat, 'dtype': 'float64', 'phi': lst(phi), 'second': lst(second)}

    def _gen_vec(self, cls, g, i):
        lat = bool(i % 2)
        n = 500
        v = g.normal(size=(n, 3))
        if cls == 'vec_f64norm':
            # polar distance 3e-9 .. 5e-8 rad, normalised the way users do it: v / numpy.linalg.norm(v)
            th = 10.0 ** g.uniform(np.log10(3e-9), np.log10(5e-8), n)
            ph = g.uniform(0, 2 * PI, n)
            scale = 10.0 ** g.uniform(-3, 3, n)
            v = np.stack([np.sin(th) * np.cos(ph), np.sin(th) * np.sin(ph), g.choice([-1.0, 1.0], n) * np.cos(th)], 1)
            v = v * scale[:, None]
            x = v / np.linalg.norm(v, axis=1)[:, None]
            return {'kind': 'vec', 'latitude': lat, 'dtype': 'float64', 'x': [lst(x[:, 0]), lst(x[:, 1]), lst(x[:, 2])]}
        if (i // 2) % 8 == 7:
            ax = np.array([[0, 0, 1], [1, 0, 0], [0, 1, 0], [0, 0, -1], [-1, 0, 0], [0, -1, 0]])
            x = ax[g.integers(0, 6, 60)]
            return {'kind': 'vec', 'latitude': lat, 'dtype': 'int64',
                    'x': [x[:, 0].tolist(), x[:, 1].tolist(), x[:, 2].tolist()]}
        k = g.random(n)
        squeeze = np.where(k < 0.3, 10.0 ** g.uniform(-13, 0, n), 1.0)
        v[:, :2] *= squeeze[:, None]
        vl = v.astype(LD)
        vl /= np.sqrt((vl * vl).sum(1))[:, None]
        x = vl.astype(np.float64)                 # each component correctly rounded
        ax = np.array([[0, 0, 1], [1, 0, 0], [0, 1, 0], [0, 0, -1], [-1, 0, 0], [0, -1, 0]], dtype=np.float64)
        x[:12] = ax[g.integers(0, 6, 12)]
        return {'kind': 'vec', 'latitude': lat, 'dtype': 'float64', 'x': [lst(x[:, 0]), lst(x[:, 1]), lst(x[:, 2])]}

    # ------------------------------------------------------------------ oracle helpers
    def _all(self, out, ok, clause, what, ratio=None, **arrays):
        """Element-wise verdict: counts every element as an oracle evaluation, reports the first failing one.
        ``ratio`` = error / tolerance per element; its maximum per clause goes into the evidence."""
        ok = np.atleast_1d(np.asarray(ok, dtype=bool))
        out.checks += int(ok.size)
        if ratio is not None:
            r = np.asarray(ratio, dtype=np.float64)
            r = r[np.isfinite(r)]
            if r.size:
                self._margin[clause] = max(self._margin.get(clause, 0.0), float(r.max()))
        if ok.all():
            return True
        bad = np.flatnonzero(~ok.ravel())
        j = int(bad[0])
        detail = {'n_failing': int(bad.size), 'n': int(ok.size), 'index': j}
        for k, a in arrays.items():
            a = np.asarray(a)
            if a.ndim == 0:
                detail[k] = a.item() if a.dtype != LD else float(a)
            elif a.shape[0] == ok.size:
                v = a[j]
                detail[k] = [float(t) for t in np.atleast_1d(v)] if np.ndim(v) else float(v)
        out.fail(clause, '%s (%d of %d elements; first at index %d)' % (what, bad.size, ok.size, j), **detail)
        return False

    def run(self, case, out):
        kind = case['kind']
        if kind == 'gcs':
            return self._run_gcs(case, out)
        if kind == 'small':
            return self._run_small(case, out)
        if kind == 'gci':
            return self._run_gci(case, out)
        if kind == 'gcb':
            return self._run_gcb(case, out)
        if kind == 'gcirc':
            return self._run_gc(case, out)
        if kind == 'munu':
            return self._run_munu(case, out)
        if kind == 'flav':
            return self._run_flav(case, out)
        if kind == 'circle':
            return self._run_circle(case, out)
        if kind == 'inplace':
            return self._run_inplace(case, out)
        if kind == 'ang':
            return self._run_ang(case, out)
        if kind == 'vec':
            return self._run_vec(case, out)
        raise ValueError(kind)

    # ------------------------------------------------------------------ gcirc
    def _run_gc(self, case, out):
        gcirc = self.A.gcirc
        ra1, dec1, ra2, dec2 = f64(case['ra1']), f64(case['dec1']), f64(case['ra2']), f64(case['dec2'])
        sepc = f64(case['sep'])
        n = ra1.size
        inputs = {
            2: (ra1, dec1, ra2, dec2),
            1: (ra1 / 15.0, dec1, ra2 / 15.0, dec2),
            0: (np.radians(ra1), np.radians(dec1), np.radians(ra2), np.radians(dec2)),
        }
        lonu = {2: 'deg', 1: 'hour', 0: 'rad'}
        latu = {2: 'deg', 1: 'deg', 0: 'rad'}
        refs, got = {}, {}
        for un in (2, 1, 0):
            a1, d1, a2, d2 = inputs[un]
            va = S.unitvec(S.to_rad(a1, lonu[un]), S.to_rad(d1, latu[un]))
            vb = S.unitvec(S.to_rad(a2, lonu[un]), S.to_rad(d2, latu[un]))
            ref = S.sep_vec(va, vb)
            refs[un] = ref
            if un == 2:
                # the oracle is itself observed: second formula, and the separation the pair was built at
                w = S.sep_vec_atan(va, vb)
                if not bool((np.abs(ref - w) <= 1e-17).all()):
                    out.fail('harness-error', 'reference formulas disagree: max %.3g' % float(np.abs(ref - w).max()))
                m = np.isfinite(sepc)
                if m.any() and not bool((np.abs(ref[m] - sepc[m].astype(LD)) <= 2e-14).all()):
                    out.fail('harness-error', 'reference differs from the constructed separation: max %.3g'
                             % float(np.abs(ref[m] - sepc[m].astype(LD)).max()))
            toradl = (lambda x: np.asarray(x, dtype=np.float64).astype(LD)) if un == 0 else \
                     (lambda x: np.asarray(x, dtype=np.float64).astype(LD) / 3600 * S.D2R)
            top = PI * (1 + 1e-15) if un == 0 else 648000.0 * (1 + 1e-15)
            wit = dict(ra1=a1, dec1=d1, ra2=a2, dec2=d2)
            tag = 'units=%d' % un
            tol = REL * ref + FLOOR

            before = [x.copy() for x in (a1, d1, a2, d2)]
            r = gcirc(a1, d1, a2, d2, units=un)
            out.count('gc_units%d_evals' % un, n)
            out.expect(isinstance(r, np.ndarray) and r.shape == (n,), 'shape', '%s: result %r for %d pairs'
                       % (tag, getattr(r, 'shape', type(r)), n))
            r = np.asarray(r, dtype=np.float64).reshape(-1)
            got[un] = toradl(r)
            fin = np.isfinite(r)
            self._all(out, fin, 'never-nan', '%s: distance is not finite' % tag, got=r, **wit)
            self._all(out, ~fin | ((r >= 0) & (r <= top)), 'range', '%s: distance outside [0, 180 deg]' % tag, got=r, **wit)
            err = np.abs(got[un] - ref)
            self._all(out, ~fin | (err <= tol), 'vector-formula',
                      '%s: |gcirc - long-double chord reference| > 1e-6*ref + 3e-13 rad' % tag, ratio=err / tol,
                      got_rad=got[un].astype(np.float64), ref_rad=ref.astype(np.float64), err_rad=err.astype(np.float64), **wit)
            # symmetry
            rs = np.asarray(gcirc(a2, d2, a1, d1, units=un), dtype=np.float64).reshape(-1)
            ds = np.abs(toradl(rs) - got[un])
            self._all(out, np.isfinite(rs) & fin & (ds <= 1e-12 * ref + FLOOR) | ~fin, 'symmetry',
                      '%s: gcirc(p1,p2) != gcirc(p2,p1)' % tag, ratio=ds / (1e-12 * ref + FLOOR), fwd=r, rev=rs, **wit)
            # identical points
            for (x, y) in ((a1, d1), (a2, d2)):
                z = np.asarray(gcirc(x, y, x, y, units=un), dtype=np.float64).reshape(-1)       # the very same arrays twice
                self._all(out, z == 0.0, 'identical-zero', '%s: distance of a point from itself is not 0' % tag, got=z, ra1=x, dec1=y)
            # 2-D arrays
            h = n // 2
            if h >= 1:
                r2 = gcirc(a1[:2 * h].reshape(2, h), d1[:2 * h].reshape(2, h), a2[:2 * h].reshape(2, h),
                           d2[:2 * h].reshape(2, h), units=un)
                if out.expect(getattr(r2, 'shape', None) == (2, h), 'shape', '%s: 2-D input gave %r' % (tag, getattr(r2, 'shape', None))):
                    e2 = np.abs(toradl(np.asarray(r2).reshape(-1)) - ref[:2 * h])
                    self._all(out, e2 <= tol[:2 * h], 'vector-formula', '%s: 2-D array call differs from the reference' % tag,
                              err_rad=e2.astype(np.float64), ra1=a1[:2 * h], dec1=d1[:2 * h], ra2=a2[:2 * h], dec2=d2[:2 * h])
            # scalars (Python floats and numpy scalars)
            for j in range(min(3, n)):
                if j % 2:
                    rsca = gcirc(a1[j], d1[j], a2[j], d2[j], units=un)
                else:
                    rsca = gcirc(float(a1[j]), float(d1[j]), float(a2[j]), float(d2[j]), units=un)
                out.count('gc_scalar_calls')
                ok = np.ndim(rsca) == 0 and bool(np.isfinite(rsca)) and \
                    bool(np.abs(toradl(rsca) - ref[j]) <= tol[j])
                out.expect(ok, 'vector-formula', '%s: scalar call returned %r, reference %.17g rad' % (tag, rsca, float(ref[j])),
                           ra1=float(a1[j]), dec1=float(d1[j]), ra2=float(a2[j]), dec2=float(d2[j]))
            # one point against the whole array
            if un == 2 and n > 1:
                rb = np.asarray(gcirc(a1[0], d1[0], a2, d2, units=un), dtype=np.float64)
                if out.expect(rb.shape == (n,), 'shape', 'scalar-vs-array call gave shape %r' % (rb.shape,)):
                    refb = S.sep_vec(va[0], vb)
                    eb = np.abs(toradl(rb) - refb)
                    self._all(out, eb <= REL * refb + FLOOR, 'vector-formula', 'units=2: scalar-vs-array call differs from the reference',
                              err_rad=eb.astype(np.float64), ref_rad=refb.astype(np.float64), ra2=a2, dec2=d2,
                              ra1=np.full(n, a1[0]), dec1=np.full(n, d1[0]))
            # purity: the caller's arrays are untouched by all of these calls, and asking again gives the same answer
            same = np.ones(n, dtype=bool)
            for x, x0 in zip((a1, d1, a2, d2), before):
                same &= self._same_bits(x, x0)
            self._all(out, same, 'inputs-unmodified', '%s: gcirc changed its input arrays' % tag,
                      ra1_before=before[0], dec1_before=before[1], ra2_before=before[2], dec2_before=before[3], **wit)
            out.count('gc_input_unmodified_checks', n)
            ra_ = np.asarray(gcirc(a1, d1, a2, d2, units=un), dtype=np.float64).reshape(-1)
            dr = np.abs(toradl(ra_) - got[un])
            self._all(out, ~fin | (np.isfinite(ra_) & (dr <= 1e-12 * ref + FLOOR)), 'repeatable',
                      '%s: a second call on the same arrays gives a different distance' % tag, first=r, again=ra_, **wit)
            out.count('gc_repeat_calls', n)
            out.count('gc_repeat_bit_identical', int(self._same_bits(r, ra_).sum()))
        # the three conventions describe the same points (each re-quantised: refs differ by <= 1e-14)
        for un in (1, 0):
            ok = np.abs(got[un] - got[2]) <= 2 * REL * refs[2] + 2 * FLOOR + 1e-14
            ok |= ~(np.isfinite(got[un].astype(np.float64)) & np.isfinite(got[2].astype(np.float64)))
            self._all(out, ok, 'unit-conventions', 'units=%d and units=2 disagree on the same points' % un,
                      ratio=np.abs(got[un] - got[2]) / (2 * REL * refs[2] + 2 * FLOOR + 1e-14),
                      this_rad=got[un].astype(np.float64), deg_rad=got[2].astype(np.float64),
                      ra1=ra1, dec1=dec1, ra2=ra2, dec2=dec2)
        # evidence
        ref = refs[2].astype(np.float64)
        out.count('gc_pairs', n)
        out.count('gc_exact_pole_points', int((np.abs(dec1) == 90).sum() + (np.abs(dec2) == 90).sum()))
        out.count('gc_seam_crossing_pairs', int((np.abs(ra1 - ra2) > 180.0).sum()))
        out.count('gc_identical_pairs', int(((ra1 == ra2) & (dec1 == dec2)).sum()))
        out.count('gc_exact_antipodal_pairs', int(((np.abs(ra1 - ra2) == 180.0) & (dec1 == -dec2)).sum()))
        out.count('gc_within_1e-6rad_of_antipode', int((ref > PI - 1e-6).sum()))
        with np.errstate(divide='ignore'):
            dec = np.floor(np.log10(ref))
        for d in DECADES:
            c = int((dec == d).sum())
            if c:
                out.count('gc_sep_decade_1e%+d' % d, c)
        out.count('gc_sep_below_1e-12', int(((ref > 0) & (dec < -12)).sum()))
        out.nontrivial = bool((ref > 0).any())
        out.info.update(pairs=n, min_sep_rad=float(ref[ref > 0].min()) if (ref > 0).any() else 0.0, max_sep_rad=float(ref.max()))

    # ------------------------------------------------------------------ gcirc: integer dtypes
    INT_DTYPES = ('int8', 'uint8', 'int16', 'uint16', 'int32', 'uint32', 'int64', 'uint64')

    @staticmethod
    def _int_asserted(un, dt, pattern):
        """Every integer dtype is asserted in every convention since finding F-G8 was repaired (gcirc promotes
        integer input to float64); kept as a hook should a combination ever have to be reported instead."""
        return True

    def _run_gci(self, case, out):
        gcirc = self.A.gcirc
        worst = {}
        sets = {1: ('h1', 'd1', 'h2', 'd2', 'hour', 'deg'), 2: ('h1', 'd1', 'h2', 'd2', 'deg', 'deg'), 0: ('r1', 'e1', 'r2', 'e2', 'rad', 'rad')}
        results = {}
        for un in (1, 2, 0):
            k1, k2, k3, k4, lu, bu = sets[un]
            a1, b1, a2, b2 = (np.asarray(case[k], dtype=np.int64) for k in (k1, k2, k3, k4))
            if un == 2:
                a1, a2 = 15 * a1, 15 * a2                      # the same points as the hours set, in whole degrees
            n = a1.size
            f = [x.astype(np.float64) for x in (a1, b1, a2, b2)]
            ref = S.sep(S.to_rad(f[0], lu), S.to_rad(f[1], bu), S.to_rad(f[2], lu), S.to_rad(f[3], bu))
            tol = REL * ref + FLOOR
            torad = (lambda x: np.asarray(x, dtype=np.float64).astype(LD)) if un == 0 else \
                    (lambda x: np.asarray(x, dtype=np.float64).astype(LD) / 3600 * S.D2R)
            gf = torad(gcirc(f[0], f[1], f[2], f[3], units=un))       # the float64 answer for the same values
            results[un] = {'float64': gf}
            self._all(out, np.abs(gf - ref) <= tol, 'vector-formula', 'units=%d, float64 whole numbers: differs from the reference' % un,
                      ra1=f[0], dec1=f[1], ra2=f[2], dec2=f[3])
            for dt in self.INT_DTYPES:
                info = np.iinfo(dt)
                fits = (a1 >= info.min) & (a1 <= info.max) & (a2 >= info.min) & (a2 <= info.max) \
                    & (b1 >= info.min) & (b1 <= info.max) & (b2 >= info.min) & (b2 <= info.max)
                idx = np.flatnonzero(fits)
                if idx.size == 0:
                    continue
                for pattern in ('ra', 'all'):
                    ta = [a1[idx].astype(dt), b1[idx].astype(dt if pattern == 'all' else np.float64),
                          a2[idx].astype(dt), b2[idx].astype(dt if pattern == 'all' else np.float64)]
                    asserted = self._int_asserted(un, dt, pattern)
                    tag = 'units=%d, %s, %s' % (un, dt, 'RAs typed' if pattern == 'ra' else 'all four typed')
                    before = [x.copy() for x in ta]
                    r = gcirc(ta[0], ta[1], ta[2], ta[3], units=un)
                    if asserted:
                        out.count('gci_asserted_calls')
                        out.count('gci_units%d_asserted_calls' % un)
                        out.count('gci_asserted_pairs', int(idx.size))
                        if un == 1 and dt == 'int8':
                            out.count('gci_int8_hours_ge_9', int(((a1[idx] >= 9) | (a2[idx] >= 9)).sum()))
                        if un == 1 and dt == 'uint8':
                            out.count('gci_uint8_hours_ge_18', int(((a1[idx] >= 18) | (a2[idx] >= 18)).sum()))
                        if out.expect(getattr(r, 'shape', None) == (idx.size,), 'shape', '%s: result shape %r' % (tag, getattr(r, 'shape', None))):
                            g = torad(r)
                            wit = dict(ra1=a1[idx], dec1=b1[idx], ra2=a2[idx], dec2=b2[idx])
                            fin = np.isfinite(np.asarray(r, dtype=np.float64))
                            self._all(out, fin, 'never-nan', '%s: distance is not finite' % tag, **wit)
                            e = np.abs(g - ref[idx])
                            self._all(out, ~fin | (e <= tol[idx]), 'vector-formula', '%s: differs from the long-double reference for the same whole numbers' % tag,
                                      ratio=e / tol[idx], got_rad=g.astype(np.float64), ref_rad=ref[idx].astype(np.float64), **wit)
                            e = np.abs(g - gf[idx])
                            self._all(out, ~fin | (e <= 1e-12 * ref[idx] + FLOOR), 'integer-dtype', '%s: differs from the float64 call with the same values' % tag,
                                      got_rad=g.astype(np.float64), float64_rad=gf[idx].astype(np.float64), **wit)
                            if pattern == 'ra':
                                results[un][dt] = (idx, g)
                        self._all(out, np.array([bool((x == y).all()) and x.dtype == y.dtype for x, y in zip(ta, before)]), 'inputs-unmodified',
                                  '%s: gcirc changed its input arrays' % tag)
                        # numpy scalars of the same dtype
                        for j in range(min(6, idx.size)):
                            sc = [t[j] for t in ta]
                            rs = gcirc(sc[0], sc[1], sc[2], sc[3], units=un)
                            out.count('gci_numpy_scalar_calls')
                            ok = np.ndim(rs) == 0 and bool(np.isfinite(rs)) and bool(np.abs(torad(rs) - ref[idx[j]]) <= tol[idx[j]])
                            out.expect(ok, 'vector-formula', '%s, numpy scalars: returned %r, reference %.17g rad' % (tag, rs, float(ref[idx[j]])),
                                       ra1=int(sc[0]), dec1=float(sc[1]), ra2=int(sc[2]), dec2=float(sc[3]))
                    else:
                        out.count('gci_not_asserted_calls')
                        with np.errstate(all='ignore'):
                            dev = np.abs(np.asarray(torad(r), dtype=np.float64).reshape(-1) - gf[idx].astype(np.float64))
                        dev = dev[np.isfinite(dev)]
                        key = 'units=%d %s %s' % (un, dt, pattern)
                        worst[key] = float(dev.max()) if dev.size else float('inf')
                        if not dev.size or dev.max() > 1e-9:
                            out.count('gci_not_asserted_imprecise_calls')
            # Python ints
            for j in range(min(8, n)):
                rs = gcirc(int(a1[j]), int(b1[j]), int(a2[j]), int(b2[j]), units=un)
                out.count('gci_python_int_calls')
                ok = np.ndim(rs) == 0 and bool(np.isfinite(rs)) and bool(np.abs(torad(rs) - ref[j]) <= tol[j])
                out.expect(ok, 'vector-formula', 'units=%d, Python ints: returned %r, reference %.17g rad' % (un, rs, float(ref[j])),
                           ra1=int(a1[j]), dec1=int(b1[j]), ra2=int(a2[j]), dec2=int(b2[j]))
        # the conventions agree on the same points: hours (any integer dtype) vs whole degrees vs float radians
        hd = [np.asarray(case[k], dtype=np.float64) for k in ('h1', 'd1', 'h2', 'd2')]
        g0 = np.asarray(gcirc(np.radians(15.0 * hd[0]), np.radians(hd[1]), np.radians(15.0 * hd[2]), np.radians(hd[3]), units=0), dtype=np.float64).astype(LD)
        ref1 = S.sep(S.to_rad(hd[0], 'hour'), S.to_rad(hd[1], 'deg'), S.to_rad(hd[2], 'hour'), S.to_rad(hd[3], 'deg'))
        for dt, val in results[1].items():
            idx, g1 = (np.arange(ref1.size), val) if dt == 'float64' else val
            for other, (label, go) in (('deg', ('units=2 float64', results[2]['float64'])), ('deg32', ('units=2 int32', results[2].get('int32', (None, None))[1])),
                                       ('rad', ('units=0 float64 radians', g0))):
                if go is None:
                    continue
                go = go[idx] if go.shape[0] != idx.size else go
                ok = np.abs(g1 - go) <= 2 * REL * ref1[idx] + 2 * FLOOR + 1e-14
                self._all(out, ok, 'unit-conventions', 'units=1 with %s hours disagrees with %s on the same points' % (dt, label),
                          hours_rad=g1.astype(np.float64), other_rad=go.astype(np.float64),
                          ra1_h=hd[0][idx], dec1=hd[1][idx], ra2_h=hd[2][idx], dec2=hd[3][idx])
                out.count('gci_unit_convention_checks', int(idx.size))
        out.nontrivial = True
        out.info.update(not_asserted_max_deviation_rad=worst)

    # ------------------------------------------------------------------ gcirc: equivalent spellings of a right ascension
    def _run_gcs(self, case, out):
        gcirc = self.A.gcirc
        ra1, dec1, ra2, dec2 = f64(case['ra1']), f64(case['dec1']), f64(case['ra2']), f64(case['dec2'])
        n = ra1.size
        inputs = {2: (ra1, dec1, ra2, dec2), 1: (ra1 / 15.0, dec1, ra2 / 15.0, dec2),
                  0: (np.radians(ra1), np.radians(dec1), np.radians(ra2), np.radians(dec2))}
        lonu = {2: 'deg', 1: 'hour', 0: 'rad'}
        latu = {2: 'deg', 1: 'deg', 0: 'rad'}
        eps = float(np.finfo(np.float64).eps)
        got, refs, tols = {}, {}, {}
        for un in (2, 1, 0):
            a1, d1, a2, d2 = inputs[un]
            L1, B1, L2, B2 = S.to_rad(a1, lonu[un]), S.to_rad(d1, latu[un]), S.to_rad(a2, lonu[un]), S.to_rad(d2, latu[un])
            ref = S.sep(L1, B1, L2, B2)
            floor = 200 * eps * (np.abs(L1) + np.abs(B1) + np.abs(L2) + np.abs(B2)).astype(np.float64)
            tol = REL * ref + floor
            toradl = (lambda x: np.asarray(x, dtype=np.float64).astype(LD)) if un == 0 else \
                     (lambda x: np.asarray(x, dtype=np.float64).astype(LD) / 3600 * S.D2R)
            tag = 'units=%d' % un
            wit = dict(ra1=a1, dec1=d1, ra2=a2, dec2=d2)
            r = np.asarray(gcirc(a1, d1, a2, d2, units=un), dtype=np.float64).reshape(-1)
            if not out.expect(r.shape == (n,), 'shape', '%s: result shape %r' % (tag, r.shape)):
                return
            g = toradl(r)
            got[un], refs[un], tols[un] = g, ref, tol
            fin = np.isfinite(r)
            top = PI * (1 + 1e-15) if un == 0 else 648000.0 * (1 + 1e-15)
            self._all(out, fin, 'never-nan', '%s: distance is not finite' % tag, got=r, **wit)
            self._all(out, ~fin | ((r >= 0) & (r <= top)), 'range', '%s: distance outside [0, 180 deg]' % tag, got=r, **wit)
            e = np.abs(g - ref)
            self._all(out, ~fin | (e <= tol), 'ra-spelling',
                      '%s: |gcirc - reference| > 1e-6*ref + 200 eps (|ra1|+|ra2|+|dec1|+|dec2|) for right ascensions written outside [0, one turn)' % tag,
                      ratio=e / np.maximum(tol.astype(np.float64), 1e-300), got_rad=g.astype(np.float64), ref_rad=ref.astype(np.float64),
                      err_rad=e.astype(np.float64), tol_rad=tol.astype(np.float64), **wit)
            rs = np.asarray(gcirc(a2, d2, a1, d1, units=un), dtype=np.float64).reshape(-1)
            self._all(out, ~fin | (np.abs(toradl(rs) - g) <= 1e-12 * ref + floor), 'symmetry', '%s: gcirc(p1,p2) != gcirc(p2,p1)' % tag, fwd=r, rev=rs, **wit)
        for un in (1, 0):
            ok = np.abs(got[un] - got[2]) <= tols[un] + tols[2] + 1e-6 * refs[2] + np.abs(refs[un] - refs[2])
            self._all(out, ok | ~np.isfinite((got[un] + got[2]).astype(np.float64)), 'unit-conventions',
                      'units=%d and units=2 disagree on the same points' % un, this_rad=got[un].astype(np.float64), deg_rad=got[2].astype(np.float64),
                      ra1=ra1, dec1=dec1, ra2=ra2, dec2=dec2)
        ref = refs[2].astype(np.float64)
        neg = (ra1 < 0) | (ra2 < 0)
        out.count('gcs_pairs', n)
        out.count('gcs_negative_ra_pairs', int(neg.sum()))
        out.count('gcs_negative_ra_sep_below_1e-9rad', int((neg & (ref < 1e-9)).sum()))
        out.count('gcs_straddling_ra0_pairs', int(((ra1 < 0) != (ra2 < 0)).sum()))
        out.count('gcs_ra_beyond_one_turn_pairs', int(((np.abs(ra1) >= 360) | (np.abs(ra2) >= 360)).sum()))
        small = np.maximum.reduce([np.abs(ra1), np.abs(ra2), np.abs(dec1), np.abs(dec2)]) < np.degrees(1e-4)
        out.count('gcs_all_coordinates_below_1e-4rad_pairs', int(small.sum()))
        out.count('gcs_sep_below_1e-10rad', int((ref < 1e-10).sum()))
        out.nontrivial = bool(neg.any())
        out.info.update(pairs=n, negative=int(neg.sum()))

    # ------------------------------------------------------------------ angles / vectors: batches of exactly 1..5 points
    def _run_small(self, case, out):
        for st in case['sets']:
            n = int(st['n'])
            for lat in (False, True):
                second = (90.0 - f64(st['theta'])) if lat else f64(st['theta'])
                self._run_ang({'kind': 'ang', 'latitude': lat, 'dtype': 'float64', 'phi': st['phi'], 'second': lst(second)}, out)
                self._run_vec({'kind': 'vec', 'latitude': lat, 'dtype': 'float64', 'x': st['x']}, out)
                out.count('small_batches_n%d' % n, 2)
                if n == 3:
                    out.count('small_x_to_angles_3x3_calls', 2)
                if n == 2:
                    out.count('small_angles_to_x_2x2_calls', 2)
        out.nontrivial = True
        out.info = {'sizes': [int(st['n']) for st in case['sets']]}

    # ------------------------------------------------------------------ gcirc: broadcasting
    @staticmethod
    def _form(v, code):
        if code == 0:
            return float(v[0])
        if code == 1:
            return np.float64(v[0])
        if code == 2:
            return np.array(v[0])
        if code == 3:
            return v[:1].copy()
        if code == 5:
            return v.reshape(-1, 1).copy()
        return v.copy()

    def _run_gcb(self, case, out):
        gcirc = self.A.gcirc
        deg = [f64(case[k]) for k in ('ra1', 'dec1', 'ra2', 'dec2')]
        n = deg[0].size
        inputs = {2: deg, 1: [deg[0] / 15.0, deg[1], deg[2] / 15.0, deg[3]], 0: [np.radians(x) for x in deg]}
        units = {2: ('deg', 'deg'), 1: ('hour', 'deg'), 0: ('rad', 'rad')}
        forms = [list(f) for f in case['forms']] + [[5, 5, 4, 4], [4, 4, 5, 5]]      # + column against row: all pairs
        kinds = {0: 'gcb_python_float_args', 1: 'gcb_numpy_scalar_args', 2: 'gcb_0d_array_args', 3: 'gcb_length1_array_args'}
        for un in (2, 1, 0):
            vals = inputs[un]
            lu, bu = units[un]
            torad = (lambda x: np.asarray(x, dtype=np.float64).astype(LD)) if un == 0 else \
                    (lambda x: np.asarray(x, dtype=np.float64).astype(LD) / 3600 * S.D2R)
            for fi, f in enumerate(forms):
                args = [self._form(v, c) for v, c in zip(vals, f)]
                for c in f:
                    if c in kinds:
                        out.count(kinds[c])
                bc = np.broadcast_arrays(*[np.asarray(a, dtype=np.float64) for a in args])
                shape = bc[0].shape
                ref = S.sep(S.to_rad(bc[0], lu), S.to_rad(bc[1], bu), S.to_rad(bc[2], lu), S.to_rad(bc[3], bu))
                tag = 'units=%d, argument forms %r (0 float, 1 numpy scalar, 2 0-d array, 3 length-1, 4 length-n, 5 column)' % (un, f)
                r = gcirc(args[0], args[1], args[2], args[3], units=un)
                out.count('gcb_calls')
                out.count('gcb_pairs', int(np.prod(shape, dtype=int)))
                sc = [c <= 2 for c in f]
                if all(sc):
                    out.count('gcb_all_scalar_calls')
                if sc[0] and sc[2] and not (sc[1] and sc[3]):
                    out.count('gcb_scalar_ra_array_dec_calls')
                if sc[1] and sc[3] and not (sc[0] and sc[2]):
                    out.count('gcb_array_ra_scalar_dec_calls')
                if 5 in f:
                    out.count('gcb_outer_calls')
                wit = dict(forms=f, ra1=np.ravel(args[0]), dec1=np.ravel(args[1]), ra2=np.ravel(args[2]), dec2=np.ravel(args[3]))
                if not out.expect(np.shape(r) == shape, 'shape', '%s: result shape %r, the arguments broadcast to %r' % (tag, np.shape(r), shape), **wit):
                    continue
                g = torad(r)
                e = np.abs(g - ref)
                self._all(out, np.reshape(np.isfinite(np.asarray(r, dtype=np.float64)) & (e <= REL * ref + FLOOR), -1), 'vector-formula',
                          '%s: a value differs from the reference of its pair' % tag,
                          ratio=np.reshape(e / (REL * ref + FLOOR), -1), got_rad=np.reshape(g.astype(np.float64), -1), ref_rad=np.reshape(ref.astype(np.float64), -1),
                          ra1=bc[0].reshape(-1), dec1=bc[1].reshape(-1), ra2=bc[2].reshape(-1), dec2=bc[3].reshape(-1))
                # ... and equals the scalar call of that pair
                flat = [b.reshape(-1) for b in bc]
                gflat = np.reshape(g, -1)
                for j in sorted({0, flat[0].size - 1, flat[0].size // 2}):
                    rs = gcirc(float(flat[0][j]), float(flat[1][j]), float(flat[2][j]), float(flat[3][j]), units=un)
                    out.count('gcb_scalar_call_comparisons')
                    out.expect(np.ndim(rs) == 0 and bool(np.abs(torad(rs) - gflat[j]) <= 1e-12 * np.reshape(ref, -1)[j] + FLOOR), 'broadcast-pairs',
                               '%s: element %d is %r but the scalar call for that pair gives %r' % (tag, j, float(np.reshape(np.asarray(r, dtype=np.float64), -1)[j]), rs), **wit)
        out.nontrivial = True
        out.info.update(n=n)

    # ------------------------------------------------------------------ mu / nu
    def _stripe_definition(self, stripe, out):
        C = self.C
        incl_doc = S.sdss_incl_deg(stripe)
        eta = C.stripe_to_eta(stripe)
        incl = C.stripe_to_incl(stripe)
        out.count('munu_stripe_gt_46' if stripe > 46 else 'munu_stripe_le_46')
        out.expect(abs(float(eta) - (incl_doc - 32.5)) <= 1e-9, 'stripe-definition',
                   'stripe_to_eta(%d) = %r, SDSS definition gives %r' % (stripe, eta, incl_doc - 32.5), stripe=stripe)
        out.expect(abs(float(incl) - incl_doc) <= 1e-9, 'stripe-definition',
                   'stripe_to_incl(%d) = %r, SDSS definition gives %r' % (stripe, incl, incl_doc), stripe=stripe)
        fr = C.SDSSMuNu(stripe=stripe)
        out.expect(abs(float(fr.incl.to_value(self.u.deg)) - float(incl)) <= 1e-12
                   and abs(float(fr.node.to_value(self.u.deg)) - NODE) <= 1e-12, 'stripe-definition',
                   'frame attributes: incl %r node %r' % (fr.incl, fr.node), stripe=stripe)
        return float(incl)

    def _to_munu(self, lon, lat, stripe, frame_api=False, out=None):
        src = self._source(lon, lat, 'icrs', stripe, frame_api)
        snap = self._lonlat(src, 'icrs')
        m = src.transform_to(self.C.SDSSMuNu(stripe=stripe))
        if out is not None:
            self._unmodified(out, src, 'icrs', snap, 'ICRS -> (mu,nu)', stripe=stripe)
        return m

    def _to_icrs(self, mu, nu, stripe, frame_api=False, out=None):
        src = self._source(mu, nu, 'munu', stripe, frame_api)
        snap = self._lonlat(src, 'munu')
        b = src.transform_to(self.ac.ICRS())
        if out is not None:
            self._unmodified(out, src, 'munu', snap, '(mu,nu) -> ICRS', stripe=stripe)
        return b

    def _source(self, lon, lat, kind, stripe, frame_api):
        """The coordinate object a caller would hold: ICRS / SDSSMuNu frame or SkyCoord (arrays or scalars)."""
        u, ac, C = self.u, self.ac, self.C
        if kind == 'icrs':
            return ac.ICRS(ra=lon * u.deg, dec=lat * u.deg) if frame_api else \
                ac.SkyCoord(ra=lon * u.deg, dec=lat * u.deg, frame='icrs')
        return C.SDSSMuNu(mu=lon * u.deg, nu=lat * u.deg, stripe=stripe) if frame_api else \
            ac.SkyCoord(mu=lon * u.deg, nu=lat * u.deg, frame=C.SDSSMuNu(stripe=stripe))

    def _lonlat(self, obj, kind):
        """Fresh *copies* of an object's longitude / latitude in degrees (``.deg`` alone is a view of the
        object's cached representation, which would follow any in-place change made by the code under test)."""
        a, b = (obj.ra, obj.dec) if kind == 'icrs' else (obj.mu, obj.nu)
        return (np.array(a.to_value(self.u.deg), dtype=np.float64, copy=True),
                np.array(b.to_value(self.u.deg), dtype=np.float64, copy=True))

    @staticmethod
    def _same_bits(a, b):
        a = np.ascontiguousarray(np.atleast_1d(a), dtype=np.float64)
        b = np.ascontiguousarray(np.atleast_1d(b), dtype=np.float64)
        if a.shape != b.shape:
            return np.zeros(max(a.size, 1), dtype=bool)
        return a.view(np.int64) == b.view(np.int64)

    def _unmodified(self, out, obj, kind, snap, what, counter='munu_source_unmodified_checks', **wit):
        """The caller's coordinate object must read exactly as before it was handed to transform_to."""
        lon, lat = self._lonlat(obj, kind)
        ok = self._same_bits(lon, snap[0]) & self._same_bits(lat, snap[1])
        out.count(counter, int(ok.size))
        return self._all(out, ok, 'source-unmodified', '%s: the coordinate object handed to transform_to reads differently afterwards' % what,
                         lon_before=snap[0], lat_before=snap[1], lon_after=lon, lat_after=lat, **wit)

    def _repeat(self, out, first, again, tol, what, **wit):
        """A second transform of the same source object must give the first answer again (both are within
        ``tol`` of the model, hence within 2*tol of each other; bit-identical results are counted)."""
        e = S.sep_vec(self._v(*first), self._v(*again)).astype(np.float64)
        fin = np.isfinite(first[0]) & np.isfinite(first[1])
        out.count('munu_repeat_transforms', int(e.size))
        out.count('munu_repeat_bit_identical', int((self._same_bits(first[0], again[0]) & self._same_bits(first[1], again[1])).sum()))
        return self._all(out, ~fin | (e <= 2 * tol), 'repeatable', '%s: transforming the same object again gives a different answer' % what,
                         ratio=e / (2 * tol), err_rad=e, lon_first=first[0], lat_first=first[1], lon_again=again[0], lat_again=again[1], **wit)

    @staticmethod
    def _v(lon, lat, lon0=0.0):
        return S.unitvec(S.to_rad(lon, 'deg') - S.to_rad(lon0, 'deg'), S.to_rad(lat, 'deg'))

    def _run_munu(self, case, out):
        stripe = int(case['stripe'])
        api = bool(case.get('frame_api'))
        incl = self._stripe_definition(stripe, out)
        # ---------------- ICRS -> (mu, nu) -> ICRS
        ra, dec = f64(case['icrs']['lon']), f64(case['icrs']['lat'])
        n2 = ra.size
        n = n2 // 2
        SDSSMuNu, ICRS = self.C.SDSSMuNu, self.ac.ICRS
        src = self._source(ra, dec, 'icrs', stripe, api)         # the object a caller keeps
        snap = self._lonlat(src, 'icrs')
        inrange = (ra >= 0) & (ra < 360)
        if not bool(((snap[0] == ra) | ~inrange).all() and self._same_bits(snap[1], dec).all()):      # (-0.0 is stored as 0.0)
            out.fail('harness-error', 'astropy did not store the coordinates as passed')
        m = src.transform_to(SDSSMuNu(stripe=stripe))
        mu, nu = self._lonlat(m, 'munu')
        out.expect(int(m.stripe) == stripe and mu.shape == ra.shape, 'transform-frame',
                   'result frame has stripe %r, shape %r' % (m.stripe, mu.shape))
        wit = dict(stripe=stripe, ra=ra, dec=dec, mu=mu, nu=nu)
        fin = np.isfinite(mu) & np.isfinite(nu)
        self._all(out, fin, 'never-nan', 'ICRS -> (mu,nu) returned a non-finite coordinate', **wit)
        vin = self._v(ra, dec)                                   # ICRS unit vectors of the inputs
        vfr = S.munu_model_inv(ra, dec, incl, NODE)              # the same points in the (n, q, p) triad
        vgot = self._v(mu, nu, NODE)                             # what the transform says, in the triad
        cnu = np.sqrt((vfr[:, 0] ** 2 + vfr[:, 1] ** 2).astype(np.float64))
        cdec = np.sqrt((vin[:, 0] ** 2 + vin[:, 1] ** 2).astype(np.float64))
        tfw = tol_pos(cnu)
        e = S.sep_vec(vfr, vgot).astype(np.float64)
        self._all(out, ~fin | (e <= tfw), 'rotation-model',
                  'ICRS -> (mu,nu) is not the rotation by stripe_to_incl(%d)=%g about the node RA 95' % (stripe, incl),
                  ratio=e / tfw, err_rad=e, tol_rad=tfw, **wit)
        self._unmodified(out, src, 'icrs', snap, 'ICRS -> (mu,nu)', stripe=stripe)
        back = m.transform_to(ICRS())                            # round trip on the objects themselves
        ra_b, dec_b = self._lonlat(back, 'icrs')
        self._unmodified(out, m, 'munu', (mu, nu), '(mu,nu) -> ICRS (second leg of the round trip)', stripe=stripe)
        finb = np.isfinite(ra_b) & np.isfinite(dec_b)
        self._all(out, ~fin | finb, 'never-nan', '(mu,nu) -> ICRS returned a non-finite coordinate', ra_back=ra_b, dec_back=dec_b, **wit)
        e = S.sep_vec(vin, self._v(ra_b, dec_b)).astype(np.float64)
        trt = tfw + tol_pos(cdec)
        self._all(out, ~(fin & finb) | (e <= trt), 'roundtrip', 'ICRS -> (mu,nu) -> ICRS does not return the starting point',
                  ratio=e / trt, err_rad=e, tol_rad=trt, ra_back=ra_b, dec_back=dec_b, **wit)
        # ... and with what the starting *object* says now
        ra_now, dec_now = self._lonlat(src, 'icrs')
        e = S.sep_vec(self._v(ra_now, dec_now), self._v(ra_b, dec_b)).astype(np.float64)
        self._all(out, ~(fin & finb) | (e <= trt), 'roundtrip', 'ICRS -> (mu,nu) -> ICRS differs from the starting coordinate object',
                  ratio=e / trt, err_rad=e, tol_rad=trt, ra_start_now=ra_now, dec_start_now=dec_now, ra_back=ra_b, dec_back=dec_b, **wit)
        out.count('munu_object_roundtrips', n2)
        # the same source object again: same stripe, another stripe, the first stripe once more
        self._repeat(out, (mu, nu), self._lonlat(src.transform_to(SDSSMuNu(stripe=stripe)), 'munu'), tfw,
                     'ICRS -> (mu,nu)', stripe=stripe, ra=ra, dec=dec)
        s2 = (stripe + 37) % 91
        incl2 = float(self.C.stripe_to_incl(s2))
        mo = src.transform_to(SDSSMuNu(stripe=s2))
        mu_o, nu_o = self._lonlat(mo, 'munu')
        vfr2 = S.munu_model_inv(ra, dec, incl2, NODE)
        t2 = tol_pos(np.sqrt((vfr2[:, 0] ** 2 + vfr2[:, 1] ** 2).astype(np.float64)))
        e = S.sep_vec(vfr2, self._v(mu_o, nu_o, NODE)).astype(np.float64)
        self._all(out, (e <= t2) & (int(mo.stripe) == s2), 'rotation-model',
                  'the same ICRS object transformed to another stripe (%d, after %d) is not the rotation by stripe_to_incl=%g' % (s2, stripe, incl2),
                  ratio=e / t2, err_rad=e, tol_rad=t2, stripe=s2, ra=ra, dec=dec, mu=mu_o, nu=nu_o)
        out.count('munu_other_stripe_transforms', n2)
        self._repeat(out, (mu, nu), self._lonlat(src.transform_to(SDSSMuNu(stripe=stripe)), 'munu'), tfw,
                     'ICRS -> (mu,nu) after another stripe', stripe=stripe, ra=ra, dec=dec)
        self._unmodified(out, src, 'icrs', snap, 'ICRS -> (mu,nu), four transforms', stripe=stripe)
        # separations preserved: constructed partner (i, i+n) at every scale, and far pairs (i, i+1)
        for a, b, what in ((np.arange(n), np.arange(n) + n, 'partner'), (np.arange(n2 - 1), np.arange(1, n2), 'neighbour')):
            s_in = S.sep_vec(vin[a], vin[b])
            s_out = S.sep_vec(vgot[a], vgot[b])
            d = np.abs(s_in - s_out).astype(np.float64)
            self._all(out, ~(fin[a] & fin[b]) | (d <= tfw[a] + tfw[b]), 'isometry',
                      'ICRS -> (mu,nu) changes the separation of a pair (%s pairs)' % what,
                      ratio=d / (tfw[a] + tfw[b]), diff_rad=d, sep_rad=s_in.astype(np.float64), stripe=stripe,
                      ra=ra[a], dec=dec[a], ra_b=ra[b], dec_b=dec[b], mu=mu[a], nu=nu[a], mu_b=mu[b], nu_b=nu[b])
        out.count('munu_points_fw', n2)
        out.count('munu_frame_pole_points', int((cnu < 1e-6).sum()))
        out.count('munu_icrs_pole_points', int((np.abs(dec) == 90.0).sum()))
        # ---------------- (mu, nu) -> ICRS -> (mu, nu)
        mu, nu = f64(case['munu']['lon']), f64(case['munu']['lat'])
        n2 = mu.size
        n = n2 // 2
        src = self._source(mu, nu, 'munu', stripe, api)
        snap = self._lonlat(src, 'munu')
        inrange = (mu >= 0) & (mu < 360)
        if not bool(((snap[0] == mu) | ~inrange).all() and self._same_bits(snap[1], nu).all()):
            out.fail('harness-error', 'astropy did not store the coordinates as passed')
        b = src.transform_to(ICRS())
        ra, dec = self._lonlat(b, 'icrs')
        wit = dict(stripe=stripe, mu=mu, nu=nu, ra=ra, dec=dec)
        fin = np.isfinite(ra) & np.isfinite(dec)
        self._all(out, fin, 'never-nan', '(mu,nu) -> ICRS returned a non-finite coordinate', **wit)
        vmod = S.munu_model(mu, nu, incl, NODE)                  # ICRS unit vectors the model predicts
        vgot = self._v(ra, dec)
        vfr = self._v(mu, nu, NODE)
        cdec = np.sqrt((vmod[:, 0] ** 2 + vmod[:, 1] ** 2).astype(np.float64))
        cnu = np.sqrt((vfr[:, 0] ** 2 + vfr[:, 1] ** 2).astype(np.float64))
        tbw = tol_pos(cdec)
        e = S.sep_vec(vmod, vgot).astype(np.float64)
        self._all(out, ~fin | (e <= tbw), 'rotation-model',
                  '(mu,nu) -> ICRS is not the rotation by stripe_to_incl(%d)=%g about the node RA 95' % (stripe, incl),
                  ratio=e / tbw, err_rad=e, tol_rad=tbw, **wit)
        self._unmodified(out, src, 'munu', snap, '(mu,nu) -> ICRS', stripe=stripe)
        m2 = b.transform_to(SDSSMuNu(stripe=stripe))
        mu_b, nu_b = self._lonlat(m2, 'munu')
        self._unmodified(out, b, 'icrs', (ra, dec), 'ICRS -> (mu,nu) (second leg of the round trip)', stripe=stripe)
        finb = np.isfinite(mu_b) & np.isfinite(nu_b)
        self._all(out, ~fin | finb, 'never-nan', 'ICRS -> (mu,nu) returned a non-finite coordinate', mu_back=mu_b, nu_back=nu_b, **wit)
        e = S.sep_vec(vfr, self._v(mu_b, nu_b, NODE)).astype(np.float64)
        trt = tbw + tol_pos(cnu)
        self._all(out, ~(fin & finb) | (e <= trt), 'roundtrip', '(mu,nu) -> ICRS -> (mu,nu) does not return the starting point',
                  ratio=e / trt, err_rad=e, tol_rad=trt, mu_back=mu_b, nu_back=nu_b, **wit)
        mu_now, nu_now = self._lonlat(src, 'munu')
        e = S.sep_vec(self._v(mu_now, nu_now), self._v(mu_b, nu_b)).astype(np.float64)
        self._all(out, ~(fin & finb) | (e <= trt), 'roundtrip', '(mu,nu) -> ICRS -> (mu,nu) differs from the starting coordinate object',
                  ratio=e / trt, err_rad=e, tol_rad=trt, mu_start_now=mu_now, nu_start_now=nu_now, mu_back=mu_b, nu_back=nu_b, **wit)
        out.count('munu_object_roundtrips', n2)
        for _ in range(2):
            self._repeat(out, (ra, dec), self._lonlat(src.transform_to(ICRS()), 'icrs'), tbw, '(mu,nu) -> ICRS', stripe=stripe, mu=mu, nu=nu)
        self._unmodified(out, src, 'munu', snap, '(mu,nu) -> ICRS, three transforms', stripe=stripe)
        for a, bb, what in ((np.arange(n), np.arange(n) + n, 'partner'), (np.arange(n2 - 1), np.arange(1, n2), 'neighbour')):
            s_in = S.sep_vec(vfr[a], vfr[bb])
            s_out = S.sep_vec(vgot[a], vgot[bb])
            d = np.abs(s_in - s_out).astype(np.float64)
            self._all(out, ~(fin[a] & fin[bb]) | (d <= tbw[a] + tbw[bb]), 'isometry',
                      '(mu,nu) -> ICRS changes the separation of a pair (%s pairs)' % what,
                      ratio=d / (tbw[a] + tbw[bb]), diff_rad=d, sep_rad=s_in.astype(np.float64), stripe=stripe,
                      mu=mu[a], nu=nu[a], mu_b=mu[bb], nu_b=nu[bb], ra=ra[a], dec=dec[a], ra_b=ra[bb], dec_b=dec[bb])
        out.count('munu_points_bw', n2)
        out.count('munu_icrs_pole_points', int((cdec < 1e-6).sum()))
        # scalar coordinates (not arrays) through the same transforms
        for j in (0, n):
            sm = self._to_munu(f64(case['icrs']['lon'])[j], f64(case['icrs']['lat'])[j], stripe, api, out)
            sb = self._to_icrs(mu[j], nu[j], stripe, api, out)
            smu, snu, sra, sdec = (np.asarray(t, dtype=np.float64) for t in (sm.mu.deg, sm.nu.deg, sb.ra.deg, sb.dec.deg))
            ok = smu.ndim == 0 and snu.ndim == 0 and sra.ndim == 0 and sdec.ndim == 0
            if out.expect(ok, 'shape', 'scalar coordinate gave array result'):
                vf = S.munu_model_inv(f64(case['icrs']['lon'])[j], f64(case['icrs']['lat'])[j], incl, NODE)
                e1 = float(S.sep_vec(self._v(smu, snu, NODE), vf))
                e2 = float(S.sep_vec(self._v(sra, sdec), vmod[j]))
                t1 = float(tol_pos(float(np.sqrt(vf[0] ** 2 + vf[1] ** 2))))
                out.expect(e1 <= t1 and e2 <= float(tbw[j]), 'rotation-model',
                           'scalar transform differs from the rotation model: %.3g / %.3g rad' % (e1, e2), stripe=stripe,
                           ra=float(f64(case['icrs']['lon'])[j]), dec=float(f64(case['icrs']['lat'])[j]), mu=float(mu[j]), nu=float(nu[j]))
            out.count('munu_scalar_transforms', 2)
        out.count('munu_frame_api_cases' if api else 'munu_skycoord_cases')
        out.count('munu_frame_pole_points', int((np.abs(nu) == 90.0).sum()))
        out.nontrivial = incl != 0.0
        out.info.update(stripe=stripe, incl=incl, points=int(ra.size + mu.size), frame_api=api)

    def _run_circle(self, case, out):
        stripe = int(case['stripe'])
        incl = self._stripe_definition(stripe, out)
        t = f64(case['t'])
        n = t.size
        mu = NODE + t
        nu = np.zeros(n)
        b = self._to_icrs(mu, nu, stripe, False, out)
        ra, dec = self._lonlat(b, 'icrs')
        fin = np.isfinite(ra) & np.isfinite(dec)
        self._all(out, fin, 'never-nan', 'nu=0 -> ICRS returned a non-finite coordinate', stripe=stripe, mu=mu, ra=ra, dec=dec)
        # closed form (DESIGN C18): Dec = asin(sin i sin t'), RA = node + atan2(cos i sin t', cos t'), t' = mu - node
        il = S.to_rad(incl, 'deg')
        tl = S.to_rad(mu, 'deg') - S.to_rad(NODE, 'deg')
        sd = np.sin(il) * np.sin(tl)
        dec_e = np.arctan2(sd, np.sqrt((np.cos(il) * np.sin(tl)) ** 2 + np.cos(tl) ** 2))     # = asin(sd), well conditioned
        ra_e = S.to_rad(NODE, 'deg') + np.arctan2(np.cos(il) * np.sin(tl), np.cos(tl))
        ve = S.unitvec(ra_e, dec_e)
        e = S.sep_vec(ve, self._v(ra, dec)).astype(np.float64)
        tol = tol_pos(np.cos(dec_e).astype(np.float64))
        self._all(out, ~fin | (e <= tol), 'great-circle',
                  'nu=0 does not trace the great circle of inclination stripe_to_incl(%d)=%g through RA 95' % (stripe, incl),
                  ratio=e / tol, err_rad=e, tol_rad=tol, stripe=stripe, mu=mu, ra=ra, dec=dec,
                  ra_expected=(ra_e / S.D2R).astype(np.float64), dec_expected=(dec_e / S.D2R).astype(np.float64))
        # the same circle the other way: points on it have nu = 0 and mu = node + t (mod 360)
        ra_in = np.mod((ra_e / S.D2R).astype(np.float64), 360.0)
        dec_in = (dec_e / S.D2R).astype(np.float64)
        m = self._to_munu(ra_in, dec_in, stripe, False, out)
        mu_g, nu_g = self._lonlat(m, 'munu')
        fin = np.isfinite(mu_g) & np.isfinite(nu_g)
        self._all(out, fin, 'never-nan', 'circle point -> (mu,nu) returned a non-finite coordinate', stripe=stripe, ra=ra_in, dec=dec_in)
        vexp = S.munu_model_inv(ra_in, dec_in, incl, NODE)       # exact frame position of the float64 inputs
        e = S.sep_vec(vexp, self._v(mu_g, nu_g, NODE)).astype(np.float64)
        # the inputs were rounded to float64 degrees, so they sit within 7e-16 rad of the circle
        self._all(out, ~fin | ((e <= tol_pos(1.0)) & (np.abs(np.radians(nu_g)) <= 1e-13)), 'great-circle',
                  'points of the stripe great circle do not come out at nu = 0, mu = node + t',
                  ratio=np.maximum(e / tol_pos(1.0), np.abs(np.radians(nu_g)) / 1e-13),
                  err_rad=e, stripe=stripe, ra=ra_in, dec=dec_in, mu=mu_g, nu=nu_g, mu_expected=np.mod(mu, 360.0))
        dm = np.mod(mu_g - mu + 180.0, 360.0) - 180.0
        self._all(out, ~fin | (np.abs(np.radians(dm)) <= tol_pos(1.0) + 1e-12), 'great-circle',
                  'mu of a circle point differs from node + t modulo 360', dmu_deg=dm, stripe=stripe, ra=ra_in, dec=dec_in, mu=mu_g)
        # pole of the circle
        nn, q, p = S.munu_triad(incl, NODE)
        mp = f64(case['mu_pole'])
        for sgn in (1.0, -1.0):
            b = self._to_icrs(mp, np.full(mp.size, sgn * 90.0), stripe, False, out)
            e = S.sep_vec(np.broadcast_to(sgn * p, (mp.size, 3)), self._v(np.asarray(b.ra.deg), np.asarray(b.dec.deg))).astype(np.float64)
            cpole = float(np.sqrt(p[0] ** 2 + p[1] ** 2))
            self._all(out, e <= tol_pos(cpole), 'pole-fixed', 'nu=%+g does not map to the pole of the stripe great circle' % (sgn * 90),
                      ratio=e / tol_pos(cpole), err_rad=e, stripe=stripe, mu=mp, ra=np.asarray(b.ra.deg), dec=np.asarray(b.dec.deg))
            lo, la = S.vec_to_lonlat((sgn * p)[None, :])
            rp, dp = np.mod((lo / S.D2R).astype(np.float64), 360.0), (la / S.D2R).astype(np.float64)
            m = self._to_munu(rp, dp, stripe, False, out)
            # the float64 pole is within 4e-16 rad of the true one; nu = asin(1 - O(1e-32)) may lose sqrt(2u)
            off = np.abs(PI / 2 - sgn * np.radians(np.asarray(m.nu.deg, dtype=np.float64)))
            self._all(out, off <= tol_pos(0.0), 'pole-fixed', 'the pole of the stripe great circle does not map to nu=%+g' % (sgn * 90),
                      ratio=off / tol_pos(0.0), off_rad=off, stripe=stripe, ra=rp, dec=dp, nu=np.asarray(m.nu.deg))
        out.count('munu_circle_points', 2 * n)
        out.count('munu_frame_pole_points', 2 * mp.size + 2)
        out.nontrivial = incl != 0.0
        out.info.update(stripe=stripe, incl=incl)

    # ------------------------------------------------------------------ mu / nu: representation flavours
    @staticmethod
    def _data_snapshot(obj):
        d = obj.data
        return [(nm, np.array(getattr(d, nm).value, dtype=np.float64, copy=True)) for nm in d.components]

    def _flavour(self, out, tag, src, kind, stripe, incl, lon, lat, dist=None, dist_unit=None, derived_ok=True):
        """All direction-only clauses for one coordinate object ``src`` of ``kind`` ('icrs' | 'munu') whose directions
        are (lon, lat) [long double radians, in src's own system, any shape].  Returns the transform result."""
        SDSSMuNu, ICRS = self.C.SDSSMuNu, self.ac.ICRS
        other = 'munu' if kind == 'icrs' else 'icrs'
        fwd = (lambda o: o.transform_to(SDSSMuNu(stripe=stripe))) if kind == 'icrs' else (lambda o: o.transform_to(ICRS()))
        bwd = (lambda o: o.transform_to(ICRS())) if kind == 'icrs' else (lambda o: o.transform_to(SDSSMuNu(stripe=stripe)))
        what = '%s %s' % ('ICRS -> (mu,nu)' if kind == 'icrs' else '(mu,nu) -> ICRS', tag)
        shape = tuple(np.shape(lon))
        lon = np.asarray(lon, dtype=LD).reshape(-1)
        lat = np.asarray(lat, dtype=LD).reshape(-1)
        n = lon.size
        nn, q, p = S.munu_triad(incl, NODE)
        node = S.to_rad(NODE, 'deg')
        if kind == 'icrs':
            vin = S.unitvec(lon, lat)                                                   # ICRS components
            vexp = np.stack([(vin * nn).sum(-1), (vin * q).sum(-1), (vin * p).sum(-1)], -1)   # expected, triad components
        else:
            vin = S.unitvec(lon - node, lat)                                            # triad components
            vexp = vin[:, :1] * nn + vin[:, 1:2] * q + vin[:, 2:3] * p                  # expected, ICRS components
        cin = np.sqrt((vin[:, 0] ** 2 + vin[:, 1] ** 2).astype(np.float64))
        cexp = np.sqrt((vexp[:, 0] ** 2 + vexp[:, 1] ** 2).astype(np.float64))
        tol = tol_pos(cexp)
        snap = self._data_snapshot(src)
        out.count('flav_transforms')
        out.count('flav_points', n)
        out.count('flav_skycoord_objects' if isinstance(src, self.ac.SkyCoord) else 'flav_frame_objects')
        if shape == ():
            out.count('flav_scalar_objects')
        wit = dict(stripe=stripe, flavour=tag)
        try:
            res = fwd(src)
        except Exception as e:       # any flavour astropy accepts must be transformable; keep the other flavours running
            out.fail('exception', '%s raised %s: %s' % (what, type(e).__name__, e), **wit)
            return None
        if not out.expect(tuple(res.shape) == shape, 'shape', '%s: result shape %r for input shape %r' % (what, res.shape, shape), **wit):
            return res
        glon, glat = (np.reshape(t, -1) for t in self._lonlat(res, other))
        fin = np.isfinite(glon) & np.isfinite(glat)
        self._all(out, fin, 'never-nan', '%s returned a non-finite coordinate' % what, lon=glon, lat=glat, **wit)
        vgot = self._v(glon, glat, NODE if other == 'munu' else 0.0)
        e = S.sep_vec(vexp, vgot).astype(np.float64)
        self._all(out, ~fin | (e <= tol), 'rotation-model', '%s is not the rotation by stripe_to_incl(%d)=%g about the node RA 95' % (what, stripe, incl),
                  ratio=e / tol, err_rad=e, tol_rad=tol, lon_got=glon, lat_got=glat,
                  lon_in=(lon / S.D2R).astype(np.float64), lat_in=(lat / S.D2R).astype(np.float64), **wit)
        if other == 'munu':
            on = np.abs(vexp[:, 2].astype(np.float64)) < 1e-14              # points of the stripe's great circle: nu = 0
            out.count('flav_on_circle_points', int(on.sum()))
            self._all(out, ~fin | ~on | (np.abs(np.radians(glat)) <= 1e-13), 'great-circle', '%s: a point of the nu=0 circle does not come out at nu = 0' % what,
                      nu=glat, mu=glon, **wit)
        if n >= 2:
            a, b = np.arange(n - 1), np.arange(1, n)
            d = np.abs(S.sep_vec(vin[a], vin[b]) - S.sep_vec(vgot[a], vgot[b])).astype(np.float64)
            self._all(out, ~(fin[a] & fin[b]) | (d <= tol[a] + tol[b]), 'isometry', '%s changes the separation of a pair' % what,
                      ratio=d / (tol[a] + tol[b]), diff_rad=d, **wit)
        # the caller's object is untouched
        now = self._data_snapshot(src)
        ok = len(now) == len(snap) and all(k1 == k2 and bool(self._same_bits(v1, v2).all()) for (k1, v1), (k2, v2) in zip(snap, now))
        out.expect(ok, 'source-unmodified', '%s: the data of the coordinate object handed to transform_to changed' % what, **wit)
        out.count('flav_source_unmodified_checks', n)
        # a distance, if the result carries one, is the one that was given
        for label, obj in (('result', res),):
            comps = obj.data.components
            if dist is not None and 'distance' in comps:
                dg = np.reshape(obj.data.distance.to_value(dist_unit), -1)
                de = np.reshape(np.broadcast_to(dist, shape if shape else ()), -1)
                self._all(out, np.abs(dg - de) <= 1e-12 * de, 'distance-preserved', '%s: the %s carries a different distance' % (what, label),
                          got=dg, given=de, **wit)
                out.count('flav_distance_returned', n)
            elif dist is not None:
                out.count('flav_distance_dropped_not_asserted', n)
        # round trip of the direction, on the objects themselves
        try:
            back = bwd(res)
        except Exception as e:
            out.fail('exception', '%s: transforming the result back raised %s: %s' % (what, type(e).__name__, e), **wit)
            return res
        blon, blat = (np.reshape(t, -1) for t in self._lonlat(back, kind))
        vb = self._v(blon, blat, NODE if kind == 'munu' else 0.0)
        e = S.sep_vec(vin, vb).astype(np.float64)
        trt = tol + tol_pos(cin)
        finb = np.isfinite(blon) & np.isfinite(blat)
        self._all(out, ~fin | (finb & (e <= trt)), 'roundtrip', '%s and back does not return the starting direction' % what,
                  ratio=e / trt, err_rad=e, tol_rad=trt, lon_back=blon, lat_back=blat,
                  lon_in=(lon / S.D2R).astype(np.float64), lat_in=(lat / S.D2R).astype(np.float64), **wit)
        # the same object once more
        try:
            again = fwd(src)
            self._repeat(out, (glon, glat), tuple(np.reshape(t, -1) for t in self._lonlat(again, other)), tol, what, **wit)
        except Exception as e:
            out.fail('exception', '%s: second transform of the same object raised %s: %s' % (what, type(e).__name__, e), **wit)
        return res

    def _run_flav(self, case, out):
        u, ac, C = self.u, self.ac, self.C
        stripe = int(case['stripe'])
        incl = self._stripe_definition(stripe, out)
        unit = u.Unit(case['unit'])
        dist = f64(case['dist'])
        sdist = float(case['sdist'])
        mask = np.asarray(case['mask'], dtype=bool)
        j = int(case['scalar_index'])
        out.count('flav_distance_lt_1', int((dist < 1).sum()))
        out.count('flav_distance_gt_1e3', int((dist > 1e3).sum()))
        ops = [('slice', lambda o: o[3:17]), ('reverse', lambda o: o[::-1]), ('mask', lambda o: o[mask]),
               ('reshape', lambda o: o.reshape(2, -1)), ('T', lambda o: o.reshape(2, -1).T), ('ravel', lambda o: o.reshape(2, -1).ravel()),
               ('copy', lambda o: o.copy()), ('index', lambda o: o[j])]
        for kind in ('icrs', 'munu'):
            lon, lat = f64(case[kind]['lon']), f64(case[kind]['lat'])
            n = lon.size
            L, B = S.to_rad(lon, 'deg'), S.to_rad(lat, 'deg')
            names = ('ra', 'dec') if kind == 'icrs' else ('mu', 'nu')
            fkw = {} if kind == 'icrs' else {'stripe': stripe}
            Frame = ac.ICRS if kind == 'icrs' else C.SDSSMuNu

            def frame(*a, **k):
                k.update(fkw)
                return Frame(*a, **k)

            def sky(*a, **k):
                return ac.SkyCoord(*a, frame=frame(), **k)
            ang = {names[0]: lon * u.deg, names[1]: lat * u.deg}
            # un-normalised Cartesian data for the same directions (float64 products; the reference uses these numbers)
            cl = np.cos(np.radians(lat))
            xyz = np.stack([cl * np.cos(np.radians(lon)), cl * np.sin(np.radians(lon)), np.sin(np.radians(lat))]) * dist
            xl = xyz.astype(LD)
            CL, CB = S.vec_to_lonlat(np.moveaxis(xl, 0, -1))
            flavours = [
                ('unit-spherical SkyCoord', sky(**ang), L, B, None, None),
                ('unit-spherical frame', frame(**ang), L, B, None, None),
                ('explicit UnitSphericalRepresentation', sky(ac.UnitSphericalRepresentation(lon * u.deg, lat * u.deg)), L, B, None, None),
                ('spherical, distances in %s, SkyCoord' % unit, sky(distance=dist * unit, **ang), L, B, dist, unit),
                ('spherical, distances in %s, frame' % unit, frame(distance=dist * unit, **ang), L, B, dist, unit),
                ('spherical, one scalar distance, SkyCoord', sky(distance=sdist * unit, **ang), L, B, np.float64(sdist), unit),
                ('spherical, dimensionless distances, frame', frame(distance=dist * u.dimensionless_unscaled, **ang), L, B, dist, u.dimensionless_unscaled),
                ('CartesianRepresentation in %s, not normalised, frame' % unit, frame(ac.CartesianRepresentation(xyz * unit)), CL, CB, None, None),
                ('CartesianRepresentation, dimensionless, not normalised, SkyCoord', sky(ac.CartesianRepresentation(xyz * u.dimensionless_unscaled)), CL, CB, None, None),
                ('SkyCoord with obstime', sky(obstime='J2010.5', **ang), L, B, None, None),
                ('scalar SkyCoord with distance', sky(distance=sdist * unit, **{names[0]: lon[j] * u.deg, names[1]: lat[j] * u.deg}), L[j], B[j], np.float64(sdist), unit),
                ('scalar frame', frame(**{names[0]: lon[j] * u.deg, names[1]: lat[j] * u.deg}), L[j], B[j], None, None),
            ]
            out.count('flav_points_with_distance', 3 * n + 1)
            out.count('flav_scalar_distance_objects', 2)
            out.count('flav_dimensionless_distance_objects', 1)
            out.count('flav_cartesian_unnormalised_points', 2 * n)
            out.count('flav_obstime_objects')
            results = {}
            for tag, obj, fl, fb, fd, fu in flavours:
                res = self._flavour(out, tag, obj, kind, stripe, incl, fl, fb, fd, fu)
                results[tag] = res
                if tag == 'SkyCoord with obstime' and res is not None:
                    out.count('flav_obstime_kept' if str(getattr(res, 'obstime', None)) == str(obj.obstime) else 'flav_obstime_lost_not_asserted')
            # objects derived from a source object without going through the constructor
            for base in ('unit-spherical SkyCoord', 'unit-spherical frame', 'spherical, distances in %s, frame' % unit):
                obj = [f for f in flavours if f[0] == base][0]
                for opname, op in ops:
                    fd = None if obj[4] is None else (op(obj[4]) if np.ndim(obj[4]) else obj[4])
                    self._flavour(out, '%s, derived by %s' % (base, opname), op(obj[1]), kind, stripe, incl, op(obj[2]), op(obj[3]), fd, obj[5])
                    out.count('flav_derived_objects')
            # ... and from the result of a transform (these are objects built by the code under test)
            other = 'munu' if kind == 'icrs' else 'icrs'
            for base in ('unit-spherical SkyCoord', 'unit-spherical frame'):
                res = results.get(base)
                if res is None or tuple(res.shape) != (n,):
                    continue
                rl, rb = self._lonlat(res, other)
                if not (np.isfinite(rl) & np.isfinite(rb)).all():
                    continue
                RL, RB = S.to_rad(rl, 'deg'), S.to_rad(rb, 'deg')
                for opname, op in ops:
                    self._flavour(out, 'result of %s, derived by %s' % (base, opname), op(res), other, stripe, incl, op(RL), op(RB))
                    out.count('flav_derived_from_result_objects')
        out.nontrivial = incl != 0.0
        out.info.update(stripe=stripe, incl=incl, unit=case['unit'])

    # ------------------------------------------------------------------ mu / nu: the caller's object edited in place
    def _inpl_judge(self, out, what, system, content, got, incl, stripe):
        """Direction-only clauses for one transform: ``content`` = (lon, lat) in degrees the source object read when it was
        handed over, ``got`` = (lon, lat) of the answer.  Returns (tol, vin, cin) for the deferred round trip."""
        other = 'munu' if system == 'icrs' else 'icrs'
        lon = S.to_rad(np.reshape(content[0], -1), 'deg')
        lat = S.to_rad(np.reshape(content[1], -1), 'deg')
        glon, glat = np.reshape(got[0], -1), np.reshape(got[1], -1)
        nn, q, p = S.munu_triad(incl, NODE)
        node = S.to_rad(NODE, 'deg')
        if system == 'icrs':
            vin = S.unitvec(lon, lat)
            vexp = np.stack([(vin * nn).sum(-1), (vin * q).sum(-1), (vin * p).sum(-1)], -1)
        else:
            vin = S.unitvec(lon - node, lat)
            vexp = vin[:, :1] * nn + vin[:, 1:2] * q + vin[:, 2:3] * p
        cin = np.sqrt((vin[:, 0] ** 2 + vin[:, 1] ** 2).astype(np.float64))
        tol = tol_pos(np.sqrt((vexp[:, 0] ** 2 + vexp[:, 1] ** 2).astype(np.float64)))
        wit = dict(stripe=stripe, history=what, lon_in=np.reshape(content[0], -1), lat_in=np.reshape(content[1], -1), lon_got=glon, lat_got=glat)
        if not out.expect(np.shape(got[0]) == np.shape(content[0]), 'shape', '%s: result shape %r for an object of shape %r'
                          % (what, np.shape(got[0]), np.shape(content[0])), stripe=stripe):
            return None
        fin = np.isfinite(glon) & np.isfinite(glat)
        self._all(out, fin, 'never-nan', '%s returned a non-finite coordinate' % what, **wit)
        vgot = self._v(glon, glat, NODE if other == 'munu' else 0.0)
        e = S.sep_vec(vexp, vgot).astype(np.float64)
        self._all(out, ~fin | (e <= tol), 'rotation-model',
                  '%s: the answer is not the rotation (stripe_to_incl(%d)=%g about the node RA 95) of what the object holds now' % (what, stripe, incl),
                  ratio=e / tol, err_rad=e, tol_rad=tol, **wit)
        if glon.size >= 2:
            a, b = np.arange(glon.size - 1), np.arange(1, glon.size)
            d = np.abs(S.sep_vec(vin[a], vin[b]) - S.sep_vec(vgot[a], vgot[b])).astype(np.float64)
            self._all(out, ~(fin[a] & fin[b]) | (d <= tol[a] + tol[b]), 'isometry', '%s changes the separation of a pair' % what,
                      ratio=d / (tol[a] + tol[b]), diff_rad=d, stripe=stripe, history=what,
                      lon_in=wit['lon_in'][a], lat_in=wit['lat_in'][a], lon_in_b=wit['lon_in'][b], lat_in_b=wit['lat_in'][b],
                      lon_got=glon[a], lat_got=glat[a], lon_got_b=glon[b], lat_got_b=glat[b])
        return tol, vin, cin

    def _inpl_object(self, out, o, stripe, s2, incl, incl2):
        SDSSMuNu, ICRS, SkyCoord = self.C.SDSSMuNu, self.ac.ICRS, self.ac.SkyCoord
        system, api, hist = o['system'], o['api'], o['history']
        frame_api = api == 'frame'
        other = 'munu' if system == 'icrs' else 'icrs'
        shape = tuple(o['shape'])
        lon0, lat0 = f64(o['lon']).reshape(shape), f64(o['lat']).reshape(shape)
        name = '%s %s%s' % ('ICRS' if system == 'icrs' else 'SDSSMuNu', 'frame' if frame_api else 'SkyCoord', ' of shape %r' % (shape,) if len(shape) > 1 else '')
        arrow = 'ICRS -> (mu,nu)' if system == 'icrs' else '(mu,nu) -> ICRS'
        box = [self._source(lon0, lat0, system, stripe, frame_api)]           # THE object the caller keeps and edits
        exp_lon, exp_lat = lon0.copy(), lat0.copy()
        out.count('inpl_frame_objects' if frame_api else 'inpl_skycoord_objects')
        out.count('inpl_2d_objects' if len(shape) > 1 else 'inpl_1d_objects')
        out.count('inpl_history_' + hist.replace('-', '_'))
        pending = []
        # the companion of a (mu,nu) object: another object of the same shape on another stripe, transformed in between
        companion = None if system == 'icrs' else self._source(lat0[..., ::-1] + 90.0, lat0, 'munu', s2, frame_api)

        kept = {}

        def target(t):
            """The frame object asked for: a new one per transform, or (two histories of three) one per stripe kept by the caller."""
            if hist == 'same':
                return SDSSMuNu(stripe=t) if system == 'icrs' else ICRS()
            if t not in kept:
                kept[t] = SDSSMuNu(stripe=t) if system == 'icrs' else ICRS()
                out.count('inpl_target_frames_kept')
            else:
                out.count('inpl_target_frame_reuses')
            return kept[t]

        def transform(step, t):
            obj = box[0]
            content = self._lonlat(obj, system)
            what = '%s, %s, %s, to %s' % (name, arrow, step, 'stripe %d' % t if system == 'icrs' else 'ICRS')
            res = obj.transform_to(target(t))
            self._unmodified(out, obj, system, content, what, counter='inpl_source_unmodified_checks', stripe=t)
            got = self._lonlat(res, other)
            j = self._inpl_judge(out, what, system, content, got, incl if t == stripe else incl2, t)
            out.count('inpl_transforms_%s' % system)
            if j is not None:
                pending.append((what, t, res, got, content) + j)
            return j

        def companion_transform(step):
            content = self._lonlat(companion, 'munu')
            res = companion.transform_to(ICRS())
            self._inpl_judge(out, '%s, companion object on stripe %d, %s' % (name, s2, step), 'munu', content, self._lonlat(res, 'icrs'), incl2, s2)
            out.count('inpl_companion_transforms')

        def sequence(step, seq):
            for k, what in enumerate(seq):
                tag = '%s [%d of %d: %s]' % (step, k + 1, len(seq), '/'.join(seq))
                if what == 'first':
                    transform(tag, stripe)
                elif system == 'icrs':
                    transform(tag, s2)
                else:
                    companion_transform(tag)
        seq = {'same': ['first'], 'other-first': ['other', 'first'], 'sibling': ['first', 'other', 'first']}[hist]
        sequence('before any edit', ['first', 'other'] if hist == 'sibling' else ['first'])
        for ne, ed in enumerate(o['edits']):
            idx = self._idx(ed['index'])
            vshape = tuple(ed['vshape'])
            vl, vb = f64(ed['lon']).reshape(vshape), f64(ed['lat']).reshape(vshape)
            val = self._source(vl if vshape else float(vl), vb if vshape else float(vb), system, stripe, frame_api)
            before = self._lonlat(box[0], system)
            box[0][idx] = val                                                 # in place: same object, new positions
            exp_lon[idx] = vl
            exp_lat[idx] = vb
            now = self._lonlat(box[0], system)
            if not (np.shape(now[0]) == shape and bool((now[0] == exp_lon).all()) and bool((now[1] == exp_lat).all())):
                out.fail('harness-error', '%s: after item assignment (%s) the object does not read the assigned coordinates' % (name, ed['mode']))
                return
            moved = S.sep_vec(self._v(np.reshape(before[0], -1), np.reshape(before[1], -1)),
                              self._v(np.reshape(now[0], -1), np.reshape(now[1], -1))).astype(np.float64)
            out.count('inpl_edits')
            out.count('inpl_%s_edits' % ed['mode'])
            if not vshape and int(np.size(exp_lon[idx])) > 1:
                out.count('inpl_broadcast_value_edits')
            out.count('inpl_points_moved', int((moved > 0).sum()))
            out.count('inpl_points_moved_lt_1e-6rad', int(((moved > 0) & (moved < 1e-6)).sum()))
            out.count('inpl_points_longitude_only_changed', int(((before[0] != now[0]) & (before[1] == now[1])).sum()))
            out.count('inpl_points_latitude_only_changed', int(((before[0] == now[0]) & (before[1] != now[1])).sum()))
            step = 'after in-place edit %d (%s assignment, %d positions changed)' % (ne + 1, ed['mode'], int((moved > 0).sum()))
            n0 = len(pending)
            sequence(step, seq)
            for rec in pending[n0:]:
                out.count('inpl_transforms_after_edit_%s' % system)
                out.count('inpl_points_moved_detectably', int((moved > 10.0 * rec[5]).sum()))
        # ---- deferred: nothing below ran between the transforms above, so the history stayed what the caller's would be
        for what, t, res, got, content, tol, vin, cin in pending:
            again = self._lonlat(res, other)
            self._all(out, self._same_bits(np.reshape(again[0], -1), np.reshape(got[0], -1)) & self._same_bits(np.reshape(again[1], -1), np.reshape(got[1], -1)),
                      'result-unchanged', '%s: the result reads differently after later transforms of the same source object' % what,
                      lon_first=np.reshape(got[0], -1), lat_first=np.reshape(got[1], -1), lon_now=np.reshape(again[0], -1), lat_now=np.reshape(again[1], -1), stripe=t)
            out.count('inpl_results_alive_checks')
            glon, glat = np.reshape(got[0], -1), np.reshape(got[1], -1)
            fin = np.isfinite(glon) & np.isfinite(glat)
            back = res.transform_to(ICRS() if system == 'icrs' else SDSSMuNu(stripe=t))
            blon, blat = (np.reshape(x, -1) for x in self._lonlat(back, system))
            e = S.sep_vec(vin, self._v(blon, blat, NODE if system == 'munu' else 0.0)).astype(np.float64)
            trt = tol + tol_pos(cin)
            self._all(out, ~fin | (np.isfinite(blon) & np.isfinite(blat) & (e <= trt)), 'roundtrip',
                      '%s and back does not return what the object held' % what, ratio=e / trt, err_rad=e, tol_rad=trt, stripe=t,
                      lon_in=np.reshape(content[0], -1), lat_in=np.reshape(content[1], -1), lon_got=glon, lat_got=glat, lon_back=blon, lat_back=blat)
            out.count('inpl_roundtrips')
            fresh = self._source(content[0], content[1], system, stripe, frame_api)
            fres = fresh.transform_to(SDSSMuNu(stripe=t) if system == 'icrs' else ICRS())
            flon, flat = (np.reshape(x, -1) for x in self._lonlat(fres, other))
            e = S.sep_vec(self._v(glon, glat), self._v(flon, flat)).astype(np.float64)
            self._all(out, ~fin | (np.isfinite(flon) & np.isfinite(flat) & (e <= 2 * tol)), 'object-reuse',
                      '%s: the answer differs from the answer for a freshly built object holding the same positions' % what,
                      ratio=e / (2 * tol), err_rad=e, stripe=t, lon_in=np.reshape(content[0], -1), lat_in=np.reshape(content[1], -1),
                      lon_got=glon, lat_got=glat, lon_fresh=flon, lat_fresh=flat)
            out.count('inpl_fresh_object_comparisons')
            out.count('inpl_fresh_object_bit_identical', int(bool((self._same_bits(glon, flon) & self._same_bits(glat, flat)).all())))
        # ---- a result (an object built by the code under test) edited in place and sent back; each was transformed back above
        for rec in (pending[:1] + pending[-1:]) if len(pending) > 1 else pending:
            what, t, res = rec[0], rec[1], rec[2]
            c0 = self._lonlat(res, other)
            first, last = (0,) * len(shape), (-1,) * len(shape)
            try:
                res[...] = res[::-1].copy()
                res[first] = res[last]
            except (ValueError, TypeError):        # astropy refuses the assignment (frame attributes riding along): nothing to judge
                out.count('inpl_result_edit_refused_not_asserted')
                continue
            e_lon, e_lat = c0[0][::-1].copy(), c0[1][::-1].copy()
            e_lon[first], e_lat[first] = e_lon[last], e_lat[last]
            now = self._lonlat(res, other)
            if not (bool((now[0] == e_lon).all()) and bool((now[1] == e_lat).all())):
                out.fail('harness-error', '%s: the result, reversed in place, does not read reversed' % what)
                continue
            back = res.transform_to(ICRS() if system == 'icrs' else SDSSMuNu(stripe=t))
            self._inpl_judge(out, 'result of [%s] reversed in place and transformed back' % what, other, now, self._lonlat(back, system),
                             incl if t == stripe else incl2, t)
            out.count('inpl_result_edits')
        # ---- the object dies; objects of the same shape built, transformed and dropped afterwards get the address (id) of a dead one
        dead = {id(box[0].frame if isinstance(box[0], SkyCoord) else box[0])}
        box[0] = None
        for k in range(5):
            # (longitudes: those the dropped object started with, those it ended with, others; latitudes always different ones)
            nb = self._source((lon0, exp_lon, np.mod(lon0 + 40.0 * k, 360.0))[k % 3], lat0[..., ::-1] if k % 2 else -lat0, system, stripe, frame_api)
            fid = id(nb.frame if isinstance(nb, SkyCoord) else nb)
            reused = fid in dead
            dead.add(fid)
            content = self._lonlat(nb, system)
            res = nb.transform_to(SDSSMuNu(stripe=stripe) if system == 'icrs' else ICRS())
            self._inpl_judge(out, '%s, %s, new object built after %d earlier ones were dropped%s' % (name, arrow, k + 1, ' (it has the id of one of them)' if reused else ''),
                             system, content, self._lonlat(res, other), incl, stripe)
            out.count('inpl_successor_objects')
            out.count('inpl_successor_objects_same_id', int(reused))
            nb = res = None

    def _run_inplace(self, case, out):
        stripe, s2 = int(case['stripe']), int(case['stripe2'])
        incl = self._stripe_definition(stripe, out)
        incl2 = float(self.C.stripe_to_incl(s2))
        out.expect(abs(incl2 - S.sdss_incl_deg(s2)) <= 1e-9, 'stripe-definition', 'stripe_to_incl(%d) = %r' % (s2, incl2), stripe=s2)
        for o in case['objs']:
            self._inpl_object(out, o, stripe, s2, incl, incl2)
        out.nontrivial = incl != 0.0 or incl2 != 0.0
        out.info.update(stripe=stripe, stripe2=s2, incl=incl, histories=[o['history'] for o in case['objs']],
                        edits=[[e['mode'] for e in o['edits']] for o in case['objs']])

    # ------------------------------------------------------------------ angles <-> vectors
    @staticmethod
    def _ang_ref(phi, second, latitude):
        lon = S.to_rad(phi, 'deg')
        la = S.to_rad(second, 'deg') if latitude else S.PI / 2 - S.to_rad(second, 'deg')
        return S.unitvec(lon, la)

    def _check_vectors(self, out, x, vref, what, **wit):
        n = vref.shape[0]
        good = out.expect(isinstance(x, np.ndarray) and x.shape == (n, 3), 'shape', '%s: result shape %r' % (what, getattr(x, 'shape', None)))
        if not good:
            return None
        xl = x.astype(LD)
        fin = np.isfinite(x).all(1)
        self._all(out, fin, 'never-nan', '%s: non-finite vector component' % what, x=x, **wit)
        nrm = np.sqrt((xl * xl).sum(1))
        self._all(out, ~fin | (np.abs(nrm - 1) <= 1e-13), 'unit-norm', '%s: vector is not of unit length' % what,
                  ratio=np.abs(nrm - 1).astype(np.float64) / 1e-13, norm=nrm.astype(np.float64), x=x, **wit)
        d = np.abs(xl - vref).max(1).astype(np.float64)
        self._all(out, ~fin | (d <= 3e-13), 'vector-model', '%s: vector differs from (cos lat cos lon, cos lat sin lon, sin lat)' % what,
                  ratio=d / 3e-13, err=d, x=x, expected=vref.astype(np.float64), **wit)
        return xl

    def _check_angles(self, out, a, vref, latitude, what, phi_in=None, **wit):
        """a: (n,2) angles returned by x_to_angles; vref: long-double unit vectors they should point at."""
        n = vref.shape[0]
        good = out.expect(isinstance(a, np.ndarray) and a.shape == (n, 2), 'shape', '%s: result shape %r' % (what, getattr(a, 'shape', None)))
        if not good:
            return None
        a = a.astype(np.float64)
        fin = np.isfinite(a).all(1)
        self._all(out, fin, 'never-nan', '%s: non-finite angle' % what, angles=a, **wit)
        lo, hi = (-90.0, 90.0) if latitude else (0.0, 180.0)
        self._all(out, ~fin | ((a[:, 1] >= lo) & (a[:, 1] <= hi) & (np.abs(a[:, 0]) <= 360.0)), 'range',
                  '%s: angle outside its range' % what, angles=a, **wit)
        c = np.sqrt((vref[:, 0] ** 2 + vref[:, 1] ** 2).astype(np.float64))
        tol = tol_pos(c)
        vb = self._ang_ref(a[:, 0], a[:, 1], latitude)
        e = S.sep_vec(vref, vb).astype(np.float64)
        self._all(out, ~fin | (e <= tol), 'inverse', '%s: returned angles do not point at the vector' % what,
                  ratio=e / tol, err_rad=e, tol_rad=tol, angles=a, **wit)
        if phi_in is not None:
            # RA modulo 360: decided only away from the poles, where longitude is defined
            dec = c > 1e-2
            out.undecide(int((~dec).sum()))
            dphi = np.mod(a[:, 0] - phi_in + 180.0, 360.0) - 180.0
            self._all(out, ~fin | ~dec | (np.abs(np.radians(dphi)) <= tol / np.maximum(c, 1e-2)), 'inverse',
                      '%s: longitude differs from the input modulo 360' % what, dphi_deg=dphi, phi_in=phi_in, angles=a, **wit)
        return c

    def _run_ang(self, case, out):
        M = self.M
        lat = bool(case['latitude'])
        dt = case.get('dtype', 'float64')
        pts = np.stack([np.asarray(case['phi']), np.asarray(case['second'])], 1).astype(dt)
        phi = pts[:, 0].astype(np.float64)
        second = pts[:, 1].astype(np.float64)
        n = phi.size
        vref = self._ang_ref(phi, second, lat)
        what = 'angles_to_x(%s, latitude=%s)' % (dt, lat)
        orig = pts.copy()
        x = M.angles_to_x(pts, latitude=lat)
        xl = self._check_vectors(out, x, vref, what, phi=phi, second=second)
        out.expect(pts.dtype == orig.dtype and pts.tobytes() == orig.tobytes(), 'inputs-unmodified', '%s changed its input array' % what)
        out.count('ang_input_unmodified_checks', n)
        if xl is not None:
            x0 = x.copy()
            x_again = M.angles_to_x(pts, latitude=lat)
            self._all(out, (np.abs(np.asarray(x_again, dtype=np.float64) - x0) <= 1e-15).all(1), 'repeatable',
                      '%s: a second call on the same array gives different vectors' % what, first=x0, again=x_again, phi=phi, second=second)
            a = M.x_to_angles(x, latitude=lat)
            out.expect(x.tobytes() == x0.tobytes(), 'inputs-unmodified', 'x_to_angles(%s) changed its input array' % what)
            a_again = M.x_to_angles(x, latitude=lat)
            self._all(out, self._same_bits(np.asarray(a, dtype=np.float64).ravel(), np.asarray(a_again, dtype=np.float64).ravel())
                      | (np.abs(np.asarray(a, dtype=np.float64) - np.asarray(a_again, dtype=np.float64)).ravel() <= 1e-9), 'repeatable',
                      'x_to_angles(%s): a second call on the same array gives different angles' % what)
            out.count('ang_repeat_calls', 2 * n)
            # the vector that was actually handed to x_to_angles is x; it lies within 1e-13 of vref unless
            # the previous clause already failed
            self._check_angles(out, a, vref, lat, 'x_to_angles(%s)' % what, phi_in=phi, phi=phi, second=second)
        c = np.sqrt((vref[:, 0] ** 2 + vref[:, 1] ** 2).astype(np.float64))
        polar = (second == (90.0 if lat else 0.0)) | (second == (-90.0 if lat else 180.0))
        out.count('ang_points', n)
        out.count('ang_exact_pole_points', int(polar.sum()))
        out.count('ang_within_1e-6rad_of_pole', int((c < 1e-6).sum()))
        out.count('ang_phi_outside_0_360', int(((phi < 0) | (phi >= 360)).sum()))
        if dt != 'float64':
            out.count('ang_int_points', n)
        out.nontrivial = bool((c > 1e-6).any())
        out.info.update(points=n, latitude=lat, dtype=dt)

    def _run_vec(self, case, out):
        M = self.M
        lat = bool(case['latitude'])
        dt = case.get('dtype', 'float64')
        x = np.stack([np.asarray(c) for c in case['x']], 1).astype(dt)
        n = x.shape[0]
        xl = x.astype(LD)
        nrm = np.sqrt((xl * xl).sum(1))
        if not bool((np.abs(nrm - 1) <= 4.5e-16).all()):
            out.fail('harness-error', 'generated vector is not a unit vector to 2 ulp: %.3g' % float(np.abs(nrm - 1).max()))
            return
        vref = xl / nrm[:, None]
        what = 'x_to_angles(%s unit vectors, latitude=%s)' % (dt, lat)
        x_orig = x.copy()
        a = M.x_to_angles(x, latitude=lat)
        out.expect(x.dtype == x_orig.dtype and x.tobytes() == x_orig.tobytes(), 'inputs-unmodified', '%s changed its input array' % what)
        a_again = M.x_to_angles(x, latitude=lat)
        if getattr(a_again, 'shape', None) == getattr(a, 'shape', ()):
            af, ag = np.asarray(a, dtype=np.float64).ravel(), np.asarray(a_again, dtype=np.float64).ravel()
            self._all(out, self._same_bits(af, ag) | (np.abs(af - ag) <= 1e-9), 'repeatable',
                      '%s: a second call on the same array gives different angles' % what)
        out.count('ang_input_unmodified_checks', n)
        out.count('ang_repeat_calls', n)
        c = self._check_angles(out, a, vref, lat, what, x=x)
        if c is not None and np.isfinite(np.asarray(a, dtype=np.float64)).all():
            xb = M.angles_to_x(np.asarray(a), latitude=lat)
            if out.expect(isinstance(xb, np.ndarray) and xb.shape == (n, 3), 'shape', 'angles_to_x(x_to_angles(x)) shape %r' % (getattr(xb, 'shape', None),)):
                e = S.sep_vec(vref, xb.astype(LD)).astype(np.float64)
                nb = np.sqrt((xb.astype(LD) ** 2).sum(1))
                self._all(out, (e <= tol_pos(c) + 1e-13) & (np.abs(nb - 1) <= 1e-13), 'inverse',
                          'angles_to_x(x_to_angles(x)) != x', ratio=e / (tol_pos(c) + 1e-13), err_rad=e, x=x, back=xb, angles=np.asarray(a, dtype=np.float64))
        cc = np.sqrt((vref[:, 0] ** 2 + vref[:, 1] ** 2).astype(np.float64))
        out.count('vec_points', n)
        out.count('vec_within_1e-7rad_of_pole', int((cc < 1e-7).sum()))
        out.count('vec_axis_vectors', int((np.abs(x) == 1).any(1).sum()))
        out.nontrivial = bool((cc > 0).any())
        out.info.update(points=n, latitude=lat, dtype=dt)

    # ------------------------------------------------------------------ evidence helpers
    def summarise(self, case):
        def cut(v):
            if isinstance(v, list):
                if v and isinstance(v[0], list):
                    return [cut(t) for t in v]
                return v[:4] + (['... %d values' % len(v)] if len(v) > 4 else [])
            if isinstance(v, dict):
                return {k: cut(t) for k, t in v.items()}
            return v
        return {k: cut(v) for k, v in case.items()}


CHECK = C18()
