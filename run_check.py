#!/venv/bin/python
"""Single entry point:  run_check.py C07 [--tier quick|thorough] [--replay FILE]

exit 0 = held on everything observed (KNOWN-FINDING lines allowed)
exit 1 = VIOLATION property=<id> replay=<path>
exit 2 = INCONCLUSIVE (monitor not reached / harness failure / watchdog)
"""
import os
import sys
import glob
import argparse
import importlib

HERE = os.path.dirname(os.path.abspath(__file__))
sys.path.insert(0, HERE)

from vlib import harness  # noqa: E402


def load_check(pid):
    m = glob.glob(os.path.join(HERE, 'checks', pid.lower() + '_*.py'))
    if not m:
        sys.exit('no check module for %s' % pid)
    name = os.path.splitext(os.path.basename(m[0]))[0]
    mod = importlib.import_module('checks.' + name)
    return mod.CHECK, name


def main():
    ap = argparse.ArgumentParser()
    ap.add_argument('pid')
    ap.add_argument('--tier', default=os.environ.get('VERIF_TIER', 'quick'), choices=['quick', 'thorough'])
    ap.add_argument('--replay')
    ap.add_argument('--shard')
    ap.add_argument('--out')
    a = ap.parse_args()
    seed = int(os.environ.get('VERIF_SEED', '0') or 0)
    harness.ensure_deps()
    harness.activate_repo()
    check, name = load_check(a.pid)
    if a.replay:
        sys.exit(harness.replay_main(check, a.replay))
    if a.shard:
        s, n = a.shard.split('/')
        harness.shard_main(check, a.tier, int(s), int(n), seed, a.out, harness.load_findings(check.ID))
        return
    sys.exit(harness.parent_main(check, a.tier, seed, os.path.abspath(__file__), name))


if __name__ == '__main__':
    main()
