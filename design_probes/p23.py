import sys, os, numpy as np, warnings
warnings.simplefilter('ignore')
sys.path.insert(0,'/tmp/probe/deps')
import icontract
from astropy import log; log.setLevel('ERROR')
import pydl.pydlspec2d.spec1d as S1
class MonitorViolation(Exception): pass
stats={'astep':0,'gstep':0,'bad':[]}
def snap_badness(self): return float(self.badness())
def astep_post(self, result, OLD):
    stats['astep']+=1
    N,K=result.shape
    worst=0.0
    for i in range(N):
        w=self.invvar[i]; G=(self.g*w)@self.g.T; F=self.g@(self.spectra[i]*w)
        worst=max(worst, np.abs(G@result[i]-F).max()/max(np.abs(F).max(),1e-300))
    a_old=self.a
    self.a=result; b=float(self.badness()); self.a=a_old
    ok = worst<1e-8 and b<=OLD.b*(1+1e-12)
    if not ok: stats['bad'].append(('astep',worst,b,OLD.b))
    return ok
S1.HMF.astep = icontract.snapshot(snap_badness, name='b')(icontract.ensure(astep_post, error=MonitorViolation)(S1.HMF.astep))
rng=np.random.default_rng(0)
N,M,K=20,60,3
spec=(np.abs(rng.normal(size=(N,K)))+.2)@(np.abs(rng.normal(size=(K,M)))+.5)+rng.normal(0,0.05,(N,M))
iv=np.full((N,M),400.); iv[rng.uniform(size=(N,M))<0.05]=0
h=S1.HMF(spec.copy(),iv.copy(),K=K,n_iter=4,seed=1)
out=h.solve()
print(stats)
# break it
orig=S1.HMF.astep
