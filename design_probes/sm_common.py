import numpy as np, warnings, time, sys
warnings.simplefilter('ignore')
from pydl.pydlutils.spheregroup import spherematch, spheregroup, chunks
def vec(ra,dec):
    r=np.radians(ra); d=np.radians(dec)
    return np.column_stack([np.cos(d)*np.cos(r),np.cos(d)*np.sin(r),np.sin(d)])
def sep(ra1,dec1,ra2,dec2):
    a=vec(ra1,dec1); b=vec(ra2,dec2)
    cr=np.linalg.norm(np.cross(a[:,None,:],b[None,:,:]),axis=2); dt=(a[:,None,:]*b[None,:,:]).sum(2)
    return np.degrees(np.arctan2(cr,dt))
def check_match(ra1,dec1,ra2,dec2,ml,chunksize=None,tag=''):
    try:
        m1,m2,d=spherematch(ra1,dec1,ra2,dec2,ml,chunksize=chunksize,maxmatch=0)
    except Exception as e:
        return 'EXC %s %s'%(type(e).__name__,e)
    S=sep(ra1,dec1,ra2,dec2)
    truth=set(zip(*np.nonzero(S<ml*(1-1e-9))))
    maybe=set(zip(*np.nonzero(S<ml*(1+1e-9))))
    got=list(zip(m1.tolist(),m2.tolist()))
    gs=set(got)
    missing=truth-gs; extra=gs-maybe; dup=len(got)-len(gs)
    srt=np.all(np.diff(d)>=0) if len(d)>1 else True
    derr=max([abs(S[i,j]-dd) for (i,j),dd in zip(got,d)] or [0])
    return dict(n=len(truth),missing=len(missing),extra=len(extra),dup=dup,sorted=bool(srt),derr=derr, ex=list(missing)[:3])
rng=np.random.default_rng(5)
def run(name,gen,ml,cs=None,trials=30):
    tot=dict(n=0,missing=0,extra=0,dup=0,exc=0); ex=None
    t0=time.time()
    for k in range(trials):
        ra1,dec1,ra2,dec2=gen()
        r=check_match(ra1,dec1,ra2,dec2,ml,cs)
        if isinstance(r,str): tot['exc']+=1; ex=r; continue
        for kk in ('n','missing','extra','dup'): tot[kk]+=r[kk]
        if r['missing'] and ex is None: ex=(r['ex'], [(ra1[i],dec1[i],ra2[j],dec2[j]) for i,j in r['ex'][:1]])
    print(name, tot, 'time %.1f'%(time.time()-t0), ex)
