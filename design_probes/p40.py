import numpy as np, warnings, time
warnings.simplefilter('ignore')
from astropy import log; log.setLevel('ERROR')
import pydl.pydlspec2d.spec1d as S1
rng=np.random.default_rng(0)
viol=[];nsteps=0;t0=time.time()
orig_a=S1.HMF.astep; orig_g=S1.HMF.gstep
def astep(self):
    global nsteps
    b0=self.badness(); a=orig_a(self); old=self.a; self.a=a; b1=self.badness(); self.a=old; nsteps+=1
    if b1>b0*(1+1e-10)+1e-9: viol.append(('a',b0,b1,self.epsilon))
    return a
def gstep(self):
    global nsteps
    b0=self.badness(); g=orig_g(self); old=self.g; self.g=g; b1=self.badness(); self.g=old; nsteps+=1
    if b1>b0*(1+1e-10)+1e-9: viol.append(('g',b0,b1,self.epsilon))
    return g
S1.HMF.astep=astep; S1.HMF.gstep=gstep
for trial in range(60):
    N=int(rng.integers(8,40)); M=int(rng.integers(30,120)); K=int(rng.integers(1,5))
    spec=(np.abs(rng.normal(size=(N,K)))+.2)@(np.abs(rng.normal(size=(K,M)))+.5)+rng.normal(0,rng.uniform(0.01,0.5),(N,M))
    iv=rng.uniform(1,400,(N,M)); iv[rng.uniform(size=(N,M))<rng.uniform(0,0.15)]=0
    eps=rng.choice([None,0.0,0.1,10.0,1e3,1e5])
    h=S1.HMF(spec.copy(),iv.copy(),K=K,n_iter=int(rng.integers(2,6)),seed=int(rng.integers(0,100)),epsilon=eps)
    try: h.solve()
    except Exception as e: print('EXC',type(e).__name__,e,N,M,K,eps)
print('steps',nsteps,'violations',len(viol),viol[:5],'time',time.time()-t0)
