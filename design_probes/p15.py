import numpy as np, warnings, time
warnings.simplefilter('ignore')
from pydl.pydlutils.spheregroup import spherematch, spheregroup, chunks
exec(open("sm_common.py").read())
rng=np.random.default_rng(2)
def fof(ra,dec,ll):
    S=sep(ra,dec,ra,dec); n=len(ra)
    par=list(range(n))
    def find(a):
        while par[a]!=a:
            par[a]=par[par[a]]; a=par[a]
        return a
    amb=False
    for i in range(n):
        for j in range(i+1,n):
            if S[i,j]<=ll*(1-1e-9):
                a,b=find(i),find(j)
                if a!=b: par[max(a,b)]=min(a,b)
            elif S[i,j]<=ll*(1+1e-9): amb=True
    lab={}; out=np.zeros(n,int)
    for i in range(n):
        r=find(i)
        if r not in lab: lab[r]=len(lab)
        out[i]=lab[r]
    return out,amb
def check(ra,dec,ll,cs=None):
    try:
        ing,mult,first,nxt=spheregroup(ra,dec,ll,chunksize=cs)
    except Exception as e:
        return 'EXC %s %s'%(type(e).__name__,e)
    ref,amb=fof(ra,dec,ll)
    if amb: return 'amb'
    ok=(ing==ref).all()
    ng=ref.max()+1
    ok2=all(mult[g]==(ref==g).sum() for g in range(ng)) and (mult[ng:]==0).all()
    ok3=all(first[g]==np.nonzero(ref==g)[0][0] for g in range(ng)) and (first[ng:]==-1).all()
    # chains
    ok4=True
    for g in range(ng):
        j=first[g]; seen=[]
        while j!=-1 and len(seen)<=len(ra): seen.append(j); j=nxt[j]
        ok4&= sorted(seen)==list(np.nonzero(ref==g)[0]) 
    return ok,ok2,ok3,ok4
def chain(dec0,ll,n):
    # chain of points spaced 0.9*ll along RA crossing many chunks + random
    step=0.9*ll/np.cos(np.radians(dec0))
    ra=(359.0+np.arange(n)*step)%360; dec=np.full(n,dec0)+rng.uniform(-0.1,0.1,n)*ll
    p=rng.permutation(n); return ra[p],dec[p]
bad=0
for dec0 in [0,30,60,80,85,-70]:
    for ll in [0.01,0.1,1.0]:
        r=check(*chain(dec0,ll,60),ll)
        print('chain',dec0,ll,r)
def scatter(n): return rng.uniform(0,360,n),np.degrees(np.arcsin(rng.uniform(-1,1,n)))
for ll in [2,5,10]:
    print('allsky',ll,[check(*scatter(120),ll) for _ in range(3)])
def polar(n,r): 
    return rng.uniform(0,360,n), 90-r*np.sqrt(rng.uniform(0,1,n))
for ll in [0.05,0.2]:
    print('polar',ll,[check(*polar(80,1.0),ll) for _ in range(3)])
    print('spolar',ll,[check(polar(80,1.0)[0],-polar(80,1.0)[1],ll) for _ in range(3)])
print('two points', check(np.array([10.,10.001]),np.array([0.,0.]),0.01))
print('two points far', check(np.array([10.,200]),np.array([0.,50.]),0.01))
print('identical', check(np.array([10.,10.,10.]),np.array([5.,5.,5.]),0.01))
# maxmatch
ra1,dec1=scatter(100); ra2=ra1+rng.normal(0,0.5,100); dec2=np.clip(dec1+rng.normal(0,0.5,100),-89,89); ra2%=360
for mm in [1,2,3]:
    m1,m2,d=spherematch(ra1,dec1,ra2,dec2,2.0,maxmatch=mm)
    print('maxmatch',mm,len(m1), np.bincount(m1).max(), np.bincount(m2).max(), np.all(np.diff(d)>=0))
