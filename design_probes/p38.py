import numpy as np, io, random, warnings, sys, collections
warnings.simplefilter('ignore')
from pydl.pydlutils.yanny import yanny
R=random.Random(int(sys.argv[1]) if len(sys.argv)>1 else 0)
IDCH='abcdefghijklmnoprstuvwxyABCDEFGHIJKLMNOPRSTUVWXY'
KW={'int','short','long','float','double','char','typedef','struct','enum'}
def ident(n=None):
    while True:
        s=''.join(R.choice(IDCH) for _ in range(n or R.randint(1,6)))+R.choice(['','_'+str(R.randint(0,9))])
        if s.lower() not in KW: return s
STRCH='abcXYZ019_-+.:;,/()[]<>=!?*&^%$@~|\'`{'
def rstr(maxlen, allow_ws=True, allow_hash=True, brace_ok=True):
    n=R.randint(0,maxlen)
    ch=STRCH+(' \t' if allow_ws else '')+('#' if allow_hash else '')
    s=''.join(R.choice(ch) for _ in range(n))
    if s.startswith('{'): s='x'+s[1:]
    return s
def gen_doc():
    ntab=R.randint(1,3); names=[]
    while len(names)<ntab:
        nm='ZQ'+str(len(names))+ident(3).upper()
        if all(nm!=x and nm not in x and x not in nm for x in names): names.append(nm)   # avoid F-Y1 here
    enums={}
    if R.random()<0.5:
        for _ in range(R.randint(1,2)):
            en=ident(4).upper()+'_T'
            if en in names or any(en in x or x in en for x in names): continue
            enums[en]=[ident(R.randint(1,5)).upper()+str(k) for k in range(R.randint(1,4))]
    tables=collections.OrderedDict()
    allcols=set()
    for nm in names:
        cols=[]; used=set()
        for _ in range(R.randint(1,6)):
            cn=ident()
            if cn.lower() in used or cn.upper() in names or any(cn.lower()==x.lower() for x in names) or any(x.lower() in cn.lower() for x in names): continue
            used.add(cn.lower())
            kind=R.choice(['short','int','long','float','double','char','chararr','numarr','enum','charvar'])
            if kind=='enum' and not enums: kind='int'
            if kind=='numarr': cols.append((cn,R.choice(['short','int','long','float','double']),R.randint(1,4),None))
            elif kind=='char': cols.append((cn,'char',0,R.randint(1,12)))
            elif kind=='charvar': cols.append((cn,'char',0,-1))
            elif kind=='chararr': cols.append((cn,'char',R.randint(1,3),R.randint(1,8)))
            elif kind=='enum': cols.append((cn,R.choice(list(enums)),0,None))
            else: cols.append((cn,kind,0,None))
        if not cols: cols=[('x','int',0,None)]
        nrows=R.randint(1,5)
        rows=[]
        for r in range(nrows):
            row=[]
            for (cn,typ,alen,clen) in cols:
                def one():
                    if typ in ('short','int','long'):
                        b={'short':15,'int':31,'long':63}[typ]; return R.choice([0,1,-1,2**b-1,-2**b,R.randint(-2**b,2**b-1)])
                    if typ in ('float','double'):
                        v=R.choice([0.0,1.5,-2.25,1e10,1e-10,R.uniform(-1e3,1e3)])
                        return float(np.float32(v)) if typ=='float' else v
                    if typ=='char':
                        L=clen if clen and clen>0 else 10
                        return rstr(L)
                    return R.choice(enums[typ])
                row.append([one() for _ in range(alen)] if alen else one())
            rows.append(row)
        tables[nm]=(cols,rows)
    pairs=collections.OrderedDict()
    for _ in range(R.randint(0,4)):
        k=ident()
        if k.upper() in names or k.lower() in [p.lower() for p in pairs]: continue
        v=rstr(15,allow_hash=False).strip()
        if v.endswith('\\') or '{{' in v: continue
        pairs[k]=v
    return dict(tables=tables,enums=enums,pairs=pairs)
def ws(): return R.choice([' ','  ','\t',' \t ','    '])
def comment(): return '#'+R.choice(['',' '])+''.join(R.choice('abc XYZ 019 _-+.:,/()=!?\'') for _ in range(R.randint(0,20)))
def fmt_num(v,typ):
    if typ in ('short','int','long'):
        s=str(v); 
        if v>=0 and R.random()<0.2: s='+'+s
        return s
    s=repr(float(v))
    if R.random()<0.2: s='%.17e'%v
    return s
def fmt_str(s,in_array):
    bare_ok = len(s)>0 and not any(c in s for c in ' \t#') and not s.startswith('{') and not s.startswith('"')
    opts=['q']
    if bare_ok: opts.append('b')
    if not in_array and s==s.strip() and not any(c in s for c in '#}"') : opts.append('br')
    if s=='' and not in_array: opts.append('db')
    o=R.choice(opts)
    if o=='q': return '"'+s+'"'
    if o=='b': return s
    if o=='br': return '{'+s+'}'
    return R.choice(['{{}}','{ { } }','{{ }}'])
def render(doc):
    L=[]
    crlf=R.random()<0.3
    if R.random()<0.5: L.append('#%yanny')
    def junk():
        for _ in range(R.randint(0,2)): L.append(R.choice(['',comment(),'   ','\t']))
    junk()
    items=[('pair',k) for k in doc['pairs']]
    for k,v in doc['pairs'].items():
        line=k+ws()+v if v else k
        if R.random()<0.3 and v: line=k+' \\\n'+ws()+v
        if R.random()<0.3: line+=ws()+comment()
        L.append(line); junk()
    for en,labs in doc['enums'].items():
        if R.random()<0.5: L.append('typedef enum {'+ws()+(','+ws()).join(labs)+ws()+'} '+en+';')
        else:
            L.append('typedef enum {'); L+= ['    '+l+(',' if i<len(labs)-1 else '') for i,l in enumerate(labs)]; L.append('} '+en+';')
        junk()
    casemap={}
    for nm,(cols,rows) in doc['tables'].items():
        tn=R.choice([nm,nm.lower()]); casemap[nm]=tn
        legacy=R.random()<0.2
        lb,rb=('<','>') if legacy else ('[',']')
        decl=[]
        for (cn,typ,alen,clen) in cols:
            d=typ+ws()+cn
            if alen: d+=lb+str(alen)+rb
            if typ=='char': d+=lb+(str(clen) if clen and clen>0 else '')+rb
            decl.append(d+';')
        if True:
            L.append('typedef'+ws()+'struct'+R.choice([' ',''])+'{')
            for dcl in decl: L.append(ws()+dcl+(ws()+'# '+''.join(R.choice('abc XYZ,.') for _ in range(R.randint(0,10))) if R.random()<0.3 else ''))
            L.append('}'+ws()+tn+';')
        junk()
    # rows interleaved
    queues={nm:list(rows) for nm,(cols,rows) in doc['tables'].items()}
    while any(queues.values()):
        nm=R.choice([n for n,q in queues.items() if q]); row=queues[nm].pop(0); cols=doc['tables'][nm][0]
        toks=[R.choice([nm,nm.lower(),''.join(R.choice([c.upper(),c.lower()]) for c in nm)])]
        for (cn,typ,alen,clen),val in zip(cols,row):
            if alen:
                if typ=='char': inner=[fmt_str(v,True) for v in val]
                elif typ in doc['enums']: inner=list(val)
                else: inner=[fmt_num(v,typ) for v in val]
                toks.append('{'+R.choice(['',' ','  '])+ws().join(inner)+R.choice(['',' '])+'}')
            else:
                if typ=='char': toks.append(fmt_str(val,False))
                elif typ in doc['enums']: toks.append(val)
                else: toks.append(fmt_num(val,typ))
        line=R.choice(['',' ','\t'])+toks[0]
        for t in toks[1:]:
            line+= (' \\\n'+ws() if R.random()<0.1 else ws())+t
        if R.random()<0.3: line+=ws()+comment()
        L.append(line); junk()
    text=('\r\n' if crlf else '\n').join(L)+R.choice(['','\n'])
    return text,crlf
def check(doc,y,raw=False):
    errs=[]
    if list(y.pairs())!=list(doc['pairs']): errs.append(('pairs',y.pairs(),list(doc['pairs'])))
    for k,v in doc['pairs'].items():
        if y[k]!=v: errs.append(('pairval',k,y[k],v))
    if sorted(y.tables())!=sorted(doc['tables']): errs.append(('tables',y.tables()))
    for nm,(cols,rows) in doc['tables'].items():
        t=y[nm]
        if list(y.columns(nm))!=[c[0] for c in cols]: errs.append(('cols',nm)); continue
        if y.size(nm)!=len(rows): errs.append(('nrows',nm,y.size(nm),len(rows))); continue
        for ci,(cn,typ,alen,clen) in enumerate(cols):
            for ri,row in enumerate(rows):
                exp=row[ci]; got=t[cn][ri]
                if typ=='char' or typ in doc['enums']:
                    g=[x.decode() if isinstance(x,bytes) else x for x in (got if alen else [got])]
                    e=exp if alen else [exp]
                    if list(g)!=list(e): errs.append(('str',nm,cn,ri,g,e))
                else:
                    g=np.atleast_1d(got).tolist(); e=exp if alen else [exp]
                    if typ=='float': e=[float(np.float32(v)) for v in e]; g=[float(v) for v in g]
                    if g!=e: errs.append(('num',nm,cn,ri,g,e))
            if not raw:
                dt=t.dtype[cn]
                base=dt.subdtype[0] if dt.subdtype else dt
                want={'short':'i2','int':'i4','long':'i8','float':'f4','double':'f8'}.get(typ)
                if want and base.str[1:]!=want: errs.append(('dtype',nm,cn,base.str))
                if typ=='char' and clen and clen>0 and base.itemsize!=clen: errs.append(('width',nm,cn,base.itemsize,clen))
                if typ=='char' and clen==-1:
                    longest=max(len(r[ci]) for r in rows)
                    if base.itemsize!=max(longest,0) and not (longest==0): errs.append(('varwidth',nm,cn,base.itemsize,longest))
    return errs
nbad=0; nexc=0; n=0; kinds=collections.Counter()
for trial in range(int(sys.argv[2]) if len(sys.argv)>2 else 1500):
    doc=gen_doc(); text,crlf=render(doc)
    mode=R.choice(['text','binary'])
    if mode=='text': f=io.StringIO(text); f.mode='r'
    else: f=io.BytesIO(text.encode('ascii')); f.mode='rb'
    try:
        y=yanny(f)
    except Exception as e:
        nexc+=1; kinds[type(e).__name__+':'+str(e)[:50]]+=1
        if nexc<=3: print('EXC',type(e).__name__,e); print(text[:1500]); print('-----')
        continue
    n+=1
    errs=check(doc,y)
    if errs:
        nbad+=1; kinds[errs[0][0]]+=1
        if nbad<=4: print('BAD',errs[:2]); print(text[:1200]); print('------')
print('parsed',n,'bad',nbad,'exc',nexc,dict(kinds))
