import numpy as np, warnings, time, sys
warnings.simplefilter('ignore')
exec(open('p15.py').read().split("def chain(")[0].replace("rng=np.random.default_rng(2)","rng=np.random.default_rng(int(sys.argv[1]) if len(sys.argv)>1 else 0)"))
res={'ok':0,'bad':0,'amb':0,'exc':0}; ex=[]
t0=time.time()
for trial in range(500):
    ll=float(10**rng.uniform(-3,1.0)); n=int(rng.integers(2,45))
    dec0=float(rng.uniform(-89,89)); ra0=float(rng.uniform(0,360)); c0=max(np.cos(np.radians(dec0)),0.02)
    sp=ll*rng.uniform(0.5,8)
    ra=(ra0+rng.uniform(-sp,sp,n)/c0)%360; dec=np.clip(dec0+rng.uniform(-sp,sp,n),-89.9999,89.9999)
    cs=None if rng.uniform()<0.5 else float(ll*rng.choice([4,4.5,8,32]))
    r=check(ra,dec,ll,cs)
    if isinstance(r,str):
        if r=='amb': res['amb']+=1
        else:
            res['exc']+=1
            if len(ex)<4: ex.append((r[:80],round(dec0,1),round(ll,4),cs,n))
    elif all(r): res['ok']+=1
    else:
        res['bad']+=1
        if len(ex)<4: ex.append(('BAD',r,round(dec0,1),round(ll,4),cs,n))
print(res,'time %.1f'%(time.time()-t0)); 
for e in ex: print(e)
