import numpy as np, warnings, collections
warnings.simplefilter('ignore')
from scipy.interpolate import BSpline
from pydl.pydlutils.bspline import bspline
rng=np.random.default_rng(0)
def cdb(t,k,j,x):
    # textbook Cox-de Boor, order k (degree k-1), basis j at points x; last interval closed
    if k==1:
        last = (t[j+1]==t[-1]) if False else False
        return np.where((x>=t[j])&(x<t[j+1]),1.0,0.0)
    out=np.zeros_like(x)
    d1=t[j+k-1]-t[j]; d2=t[j+k]-t[j+1]
    if d1>0: out+= (x-t[j])/d1*cdb(t,k-1,j,x)
    if d2>0: out+= (t[j+k]-x)/d2*cdb(t,k-1,j+1,x)
    return out
kinds=collections.Counter(); n=0
for trial in range(1500):
    nx=int(rng.integers(5,200)); k=int(rng.integers(1,7))
    x=rng.uniform(-5,20,nx) if rng.uniform()<0.6 else np.concatenate([rng.normal(3,0.5,nx//2),rng.uniform(-5,20,nx-nx//2)])
    if rng.uniform()<0.2: x=x.astype('f4')
    if rng.uniform()<0.5: x=np.sort(x)
    opt=rng.integers(0,5); kw={}
    rngx=float(x.max()-x.min())
    if opt==0: kw['bkspace']=float(rngx/rng.uniform(1,nx/2+1))
    elif opt==1: kw['nbkpts']=int(rng.integers(1,max(3,nx//2)))
    elif opt==2:
        ev=int(rng.integers(1,max(2,nx//2))); kw['everyn']=ev
        x=np.sort(x)
    elif opt==3: kw['placed']=np.sort(rng.uniform(x.min()-3,x.max()+3,int(rng.integers(0,12))))
    else:
        b=np.sort(rng.uniform(x.min(),x.max(),int(rng.integers(0,8)))); lo=x.min()-rng.choice([0,0,1.0,-0.5])*1.0; hi=x.max()+rng.choice([0,0,1.0,-0.5])
        kw['bkpt']=np.concatenate([[lo],b,[hi]])
    try:
        s=bspline(x,nord=k,**{kk:(v.copy() if isinstance(v,np.ndarray) else v) for kk,v in kw.items()})
    except Exception as e:
        kinds['EXC %s %s opt%d'%(type(e).__name__,str(e)[:40],opt)]+=1; continue
    n+=1
    t=s.breakpoints.astype('d')
    tol=4*np.finfo(np.float32).eps*max(1,np.abs(x).max())
    if np.any(np.diff(t)<0): kinds['nonmonotone opt%d'%opt]+=1
    if t[k-1]>x.min()+tol or t[len(t)-k]<x.max()-tol: kinds['nocover opt%d'%opt]+=1
    if opt!=4:
        below=(t<x.min()-tol).sum(); above=(t>x.max()+tol).sum()
        if below!=k-1 or above!=k-1: kinds['pad opt%d (%d,%d) k=%d'%(opt,below,above,k)]+=1
    # value
    nc=len(t)-k
    if nc<1: kinds['nc<1']+=1; continue
    s.coeff=rng.normal(size=s.coeff.shape)
    xe=rng.uniform(t[k-1],t[len(t)-k],40).astype(x.dtype)
    try:
        y,m=s.value(xe)
    except Exception as e:
        kinds['VEXC %s %s'%(type(e).__name__,str(e)[:40])]+=1; continue
    xd=xe.astype('d')
    ref=sum(s.coeff[j]*cdb(t,k,j,xd) for j in range(nc))
    inside=(xd>t[k-1])&(xd<t[len(t)-k])
    if k==1:
        pass
    err=np.abs(y.astype('d')-ref)[inside].max() if inside.any() else 0
    lim=(1e-9 if x.dtype==np.float64 else 1e-3)*max(1,np.abs(s.coeff).max())
    if err>lim: kinds['value err opt%d k%d %s'%(opt,k,x.dtype)]+=1
    if not m[inside].all(): kinds['mask']+=1
print('constructed',n,dict(kinds))
