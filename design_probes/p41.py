import numpy as np, warnings, time, sys
warnings.simplefilter('ignore')
from pydl.pydlutils.spheregroup import spherematch, spheregroup, chunks
exec(open("sm_common.py").read())
rng=np.random.default_rng(int(sys.argv[1]) if len(sys.argv)>1 else 0)
# C04: list 2 much wider than list 1, different distributions, various chunk sizes; catch exceptions
tot=dict(n=0,missing=0,extra=0,dup=0,exc=0,cfg=0); exs=[]
t0=time.time()
for trial in range(1500):
    mode=rng.integers(0,5)
    ml=float(10**rng.uniform(-3,1.2))
    n1=int(rng.integers(2,40)); n2=int(rng.integers(1,60))
    dec0=float(rng.uniform(-89,89)); ra0=float(rng.uniform(0,360))
    c0=max(np.cos(np.radians(dec0)),0.02)
    sp1=ml*rng.uniform(0.5,6); sp2=sp1*rng.choice([0.2,1,3,10])
    ra1=(ra0+rng.uniform(-sp1,sp1,n1)/c0)%360; dec1=np.clip(dec0+rng.uniform(-sp1,sp1,n1),-89.9999,89.9999)
    ra2=(ra0+rng.uniform(-sp2,sp2,n2)/c0)%360; dec2=np.clip(dec0+rng.uniform(-sp2,sp2,n2),-89.9999,89.9999)
    if mode==0: ra2=rng.uniform(0,360,n2); dec2=np.degrees(np.arcsin(rng.uniform(-1,1,n2)))
    cs=None if rng.uniform()<0.5 else float(ml*rng.choice([1.01,1.5,2,4,16,64]))
    nd=(dec1.max()-dec1.min())/(cs or max(4*ml,0.1))
    r=check_match(ra1,dec1,ra2,dec2,ml,cs)
    tot['cfg']+=1
    if isinstance(r,str):
        tot['exc']+=1
        if len(exs)<6: exs.append((r[:90],round(dec0,2),round(ml,4),cs,n1,n2))
        continue
    for kk in ('n','missing','extra','dup'): tot[kk]+=r[kk]
    if r['missing'] and len(exs)<6: exs.append(('MISS',round(dec0,2),round(ml,4),cs,r['missing']))
print(tot,'time %.1f'%(time.time()-t0))
for e in exs: print(e)
