import numpy as np, warnings
warnings.simplefilter('ignore')
from pydl.pydlutils.spheregroup import spherematch, spheregroup, chunks
exec(open("sm_common.py").read())
rng=np.random.default_rng(1)
ml=1.0; cs=4.0
# list 1: a few points to fix the geometry around dec 80-88
ra1=np.array([100.,140.,120.,110.,130.]); dec1=np.array([80.,88.,84.,82.,86.])
c=chunks(ra1,dec1,cs)
print('decBounds',c.decBounds,'raOffset',c.raOffset)
for i in range(c.nDec): print(i,c.nRa[i],c.raBounds[i][:4],'...',c.raBounds[i][-1], 'cosDecMin',c.cosDecMin(i))
# choose slice i whose upper bound < 90, place p1 at the upper boundary dec (just below), at RA = a cell edge + tiny (in rotated coords)
found=0
for i in range(c.nDec):
    top=c.decBounds[i+1]
    if top>=89.9 or c.nRa[i]<3: continue
    cmin=c.cosDecMin(i)
    for k in range(1,c.nRa[i]-1):
        edge=c.raBounds[i][k]-c.raOffset   # unrotated RA of the edge
        dec=top-1e-7
        cosd=np.cos(np.radians(dec))
        dmax=np.degrees(2*np.arcsin(np.sin(np.radians(ml/2))/cosd))  # RA diff giving sep==ml at this dec
        dthr=ml/cmin
        if dmax<=dthr: continue
        # p1 just right of the edge, p2 left of the edge by between dthr and dmax
        eps=(dmax-dthr)*0.25
        p1ra=(edge+eps)%360; p2ra=(edge-(dthr+ (dmax-dthr)*0.5))%360
        R1=np.append(ra1,p1ra); D1=np.append(dec1,dec)
        R2=np.array([p2ra]); D2=np.array([dec])
        S=sep(R1[-1:],D1[-1:],R2,D2)[0,0]
        m1,m2,d=spherematch(R1,D1,R2,D2,ml,chunksize=cs,maxmatch=0)
        c2=chunks(R1,D1,cs)
        ok=(len(m1)>0 and (m1==len(R1)-1).any())
        print('slice',i,'cell',k,'sep',S,'<ml',S<ml,'matched',ok, 'geometry same', np.allclose(c2.decBounds,c.decBounds))
        if S<ml and not ok: found+=1
print('MISSES',found)
