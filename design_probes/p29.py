import numpy as np, warnings, os, tempfile, time
warnings.simplefilter('ignore')
from astropy.io import fits
from astropy.table import Table
from pydl.pydlutils.mangle import *
import pydl.photoop.window as W
rng=np.random.default_rng(0)
def runit(n):
    v=rng.normal(size=(n,3)); return v/np.linalg.norm(v,axis=1)[:,None]
def ref_in_poly(x,cm,use,pts,ncaps=0):
    x=np.asarray(x,dtype=np.longdouble); pts=pts.astype(np.longdouble)
    n=len(cm); un=n if ncaps<=0 else min(ncaps,n)
    res=np.ones(len(pts),bool); und=np.zeros(len(pts),bool)
    for k in range(un):
        if not (use>>k)&1: continue
        d=1-(pts@x[k]); c=np.longdouble(cm[k])
        inside = d<=c if c>=0 else d>=-c
        und|=np.abs(d-np.abs(c))<1e-9
        res&=inside
    return res,und
d=tempfile.mkdtemp()
tot=0;dis=0;und_n=0;fmt_dis=0;exc=0
for trial in range(60):
    npoly=int(rng.integers(1,8)); maxc=int(rng.integers(2,7))
    polys=[]
    for p in range(npoly):
        nc=int(rng.integers(1,maxc+1)); x=runit(nc); cm=np.where(rng.uniform(size=nc)<0.3,-1,1)*rng.uniform(0.2,1.9,nc)
        use=int(rng.integers(1,1<<nc)) if rng.uniform()<0.5 else (1<<nc)-1
        polys.append((x,cm,use))
    pts=runit(400)
    # reference window
    ref=np.full(len(pts),-1); undw=np.zeros(len(pts),bool)
    for i,(x,cm,use) in enumerate(polys):
        r,u=ref_in_poly(x,cm,use,pts); undw|=u&(ref==-1)
        ref[(ref==-1)&r]=i
    # in-memory ManglePolygon list
    pl=PolygonList([ManglePolygon(x=x,cm=cm,use_caps=use) for x,cm,use in polys])
    got=is_in_window(pl,pts)[1]
    ok=(got==ref)|undw; tot+=len(pts); dis+=(~ok).sum(); und_n+=undw.sum()
    # FITS
    dt=[('XCAPS','f8',(maxc,3)),('CMCAPS','f8',(maxc,)),('NCAPS','i4'),('WEIGHT','f8'),('PIXEL','i4'),('STR','f8'),('USE_CAPS','u4')]
    a=np.zeros(npoly,dtype=dt)
    for i,(x,cm,use) in enumerate(polys):
        a['NCAPS'][i]=len(cm); a['XCAPS'][i,:len(cm)]=x; a['CMCAPS'][i,:len(cm)]=cm; a['USE_CAPS'][i]=use; a['WEIGHT'][i]=1
    fn=os.path.join(d,'p.fits'); fits.BinTableHDU(a).writeto(fn,overwrite=True)
    try:
        g1=is_in_window(read_fits_polygons(fn),pts)[1]; g2=is_in_window(read_fits_polygons(fn,convert=True),pts)[1]
        fmt_dis+=((g1!=got)|(g2!=got)).sum()
    except Exception as e: exc+=1; print('EXC fits',type(e).__name__,e)
    # ply  (use_caps not representable -> only all-caps)
    plyfn=os.path.join(d,'p.ply')
    with open(plyfn,'w') as f:
        f.write('%d polygons\n'%npoly)
        for i,(x,cm,use) in enumerate(polys):
            f.write('polygon %d ( %d caps, 1 weight, 0 pixel, 0.5 str):\n'%(i,len(cm)))
            for k in range(len(cm)): f.write(' %.17g %.17g %.17g %.17g\n'%(x[k,0],x[k,1],x[k,2],cm[k]))
    try:
        pp=read_mangle_polygons(plyfn)
        pl_all=PolygonList([ManglePolygon(x=x,cm=cm) for x,cm,use in polys])
        fmt_dis+=(is_in_window(pp,pts)[1]!=is_in_window(pl_all,pts)[1]).sum()
    except Exception as e: exc+=1; print('EXC ply',type(e).__name__,e)
    # window_read balkans (use all caps)
    ncs=np.array([len(cm) for x,cm,u in polys]); icap=np.concatenate([[0],np.cumsum(ncs)[:-1]])
    bl=Table({'IPRIMARY':np.arange(npoly,dtype='i4'),'IBINDX':np.zeros(npoly,'i4'),'NCAPS':ncs.astype('i4'),'ICAP':icap.astype('i4'),'WEIGHT':np.ones(npoly),'STR':np.ones(npoly)})
    bc=Table({'X':np.vstack([x for x,cm,u in polys]),'CM':np.concatenate([cm for x,cm,u in polys])})
    bl.write(os.path.join(d,'window_blist.fits'),overwrite=True); bc.write(os.path.join(d,'window_bcaps.fits'),overwrite=True)
    os.environ['PHOTO_RESOLVE']=d
    try:
        r=W.window_read(balkans=True)
        gb=is_in_window(r['balkans'],pts)[1]
        fmt_dis+=(gb!=is_in_window(pl_all,pts)[1]).sum()
    except Exception as e: exc+=1; print('EXC balkans',type(e).__name__,e)
print('points',tot,'disagree',dis,'undecided',und_n,'format disagreements',fmt_dis,'exc',exc)
