import faulthandler; faulthandler.dump_traceback_later(120, exit=True)
import numpy as np, os, sys, tempfile, random, warnings, shutil, collections
warnings.simplefilter('ignore')
from pydl.pydlutils.yanny import yanny, write_ndarray_to_yanny
from pydl.pydlutils import PydlutilsException, PydlutilsUserWarning
R=random.Random(int(sys.argv[1]) if len(sys.argv)>1 else 0)
opens=[]
TMP=tempfile.gettempdir()
def hook(ev,args):
    if ev=='open' and isinstance(args[0],str) and args[0].startswith(TMP) and args[0].endswith('.par'):
        opens.append((args[0],args[1],os.path.exists(args[0])))
sys.addaudithook(hook)
STR='abcXYZ019_-+.:;,/()=!?# \t{'
def rs(n): 
    s=''.join(R.choice(STR) for _ in range(R.randint(0,n)))
    return 'x'+s[1:] if s.startswith('{') else s
def snapshot(y,raw):
    out={}
    for t in y.tables():
        cols=y.columns(t)
        rows=[]
        for i in range(y.size(t)):
            r=[]
            for c in cols:
                v=y[t][c][i]
                if isinstance(v,(bytes,np.bytes_)): v=v.decode()
                elif isinstance(v,np.ndarray): v=[x.decode() if isinstance(x,(bytes,np.bytes_)) else x.item() for x in v]
                elif isinstance(v,np.generic): v=v.item()
                r.append(v)
            rows.append(r)
        out[t]=rows
    return out, [(k,y[k]) for k in y.pairs()]
bad=collections.Counter(); nh=0; nops=0
for trial in range(int(sys.argv[2]) if len(sys.argv)>2 else 200):
    d=tempfile.mkdtemp()
    dt=[('id','i4'),('s','S6'),('v','f8',(2,)),('w','S4',(2,))]
    uid=[0]
    def mkrow():
        uid[0]+=1; return (uid[0], rs(6), [R.uniform(-1,1),float(R.randint(-5,5))], [rs(4).replace('}','') ,rs(4).replace('}','')])
    n0=R.randint(0,3)
    a=np.zeros(n0,dtype=dt)
    model_rows=[]
    for i in range(n0):
        r=mkrow(); a[i]=(r[0],r[1].encode(),r[2],[x.encode() for x in r[3]]); model_rows.append([r[0],r[1],r[2],r[3]])
    if n0==0: shutil.rmtree(d); continue   # avoid F-Y2
    fn=os.path.join(d,'h.par')
    pairs=collections.OrderedDict([('k0','v0')])
    y=write_ndarray_to_yanny(fn,a,structnames='ZQTAB',hdr=dict(pairs))
    raw=False; nh+=1
    def verify(tag):
        global nops
        nops+=1
        if not os.path.exists(y.filename): return
        z=yanny(y.filename)
        so,po=snapshot(y,raw); sz,pz=snapshot(z,False)
        exp_pairs=list(pairs.items())
        if so!=sz: bad[tag+':obj!=file']+=1
        if sz['ZQTAB']!=model_rows: bad[tag+':file!=model']+=1; 
        if po!=pz or pz!=exp_pairs: bad[tag+':pairs']+=1
    verify('init')
    for step in range(R.randint(1,8)):
        op=R.choice(['rows_list','rows_arr','pairs','both','empty','copy','over','missing','reread'])
        before=open(y.filename,'rb').read() if os.path.exists(y.filename) else None
        opens.clear()
        try:
            if op in ('rows_list','both'):
                k=R.randint(1,3); rows=[mkrow() for _ in range(k)]
                key=R.choice(['ZQTAB','zqtab'])
                dd={key:{'id':[r[0] for r in rows],'s':[r[1] for r in rows],'v':[r[2] for r in rows],'w':[r[3] for r in rows]}}
                if op=='both':
                    pk='k%d'%R.randint(0,5); pv=R.choice(['val %d'%step, str(R.randint(0,9))]); dd[pk]=pv
                y.append(dd)
                if op=='both': pairs[pk]=pv
                model_rows+= [[r[0],r[1],r[2],r[3]] for r in rows]
            elif op=='rows_arr':
                rows=[mkrow() for _ in range(R.randint(1,2))]
                b=np.zeros(len(rows),dtype=dt)
                for i,r in enumerate(rows): b[i]=(r[0],r[1].encode(),r[2],[x.encode() for x in r[3]])
                y.append({'ZQTAB':b}); model_rows+=[[r[0],r[1],r[2],r[3]] for r in rows]
            elif op=='pairs':
                pk='k%d'%R.randint(0,5); pv='v %d'%step; y.append({pk:pv}); pairs[pk]=pv
            elif op=='empty':
                with warnings.catch_warnings(record=True) as w:
                    warnings.simplefilter('always'); y.append({})
                if not any(issubclass(x.category,PydlutilsUserWarning) for x in w): bad['empty:nowarn']+=1
                if open(y.filename,'rb').read()!=before: bad['empty:changed']+=1
                if any(m in ('w','a') for _,m,_ in opens): bad['empty:opened']+=1
            elif op=='copy':
                fn2=os.path.join(d,'c%d.par'%step); y.write(fn2)
                if open(fn,'rb').read()!=before and y.filename!=fn2: bad['copy:orig changed']+=1
            elif op=='over':
                try: y.write(); bad['over:noraise']+=1
                except PydlutilsException: pass
                if open(y.filename,'rb').read()!=before: bad['over:changed']+=1
                if any(m=='w' for _,m,_ in opens): bad['over:opened w']+=1
            elif op=='missing':
                keep=open(y.filename,'rb').read(); os.remove(y.filename)
                try: y.append({'zz':'1'}); bad['missing:noraise']+=1
                except PydlutilsException: pass
                if os.path.exists(y.filename): bad['missing:created']+=1
                open(y.filename,'wb').write(keep)
            elif op=='reread':
                y=yanny(y.filename, raw=False)
        except Exception as e:
            bad['EXC %s %s %s'%(op,type(e).__name__,str(e)[:50])]+=1; break
        if op in ('rows_list','rows_arr','pairs','both'):
            after=open(y.filename,'rb').read()
            if not after.startswith(before): bad[op+':prefix']+=1
            if any(m=='w' for _,m,_ in opens): bad[op+':opened w']+=1
        verify(op)
    shutil.rmtree(d)
print('histories',nh,'ops verified',nops,'bad',dict(bad))
