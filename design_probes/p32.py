import numpy as np, warnings, time, sys
warnings.simplefilter('ignore')
from pydl.pydlutils.spheregroup import spherematch, spheregroup, chunks
import pydl; print(pydl.__file__)
exec(open("sm_common.py").read())
rng=np.random.default_rng(int(sys.argv[1]) if len(sys.argv)>1 else 0)
def guided(dec0, ml, cs, spread, n1=25, nedge=60):
    ra0=rng.uniform(0,360)
    ra1=(ra0+rng.uniform(-spread,spread,n1)/max(np.cos(np.radians(dec0)),0.02))%360
    dec1=np.clip(dec0+rng.uniform(-spread,spread,n1),-89.999,89.999)
    c=chunks(ra1,dec1,cs)
    R1=list(ra1); D1=list(dec1); R2=[]; D2=[]
    for _ in range(nedge):
        i=int(rng.integers(0,c.nDec))
        if c.nRa[i]<2: continue
        k=int(rng.integers(1,c.nRa[i]))
        edge=(c.raBounds[i][k]-c.raOffset)%360
        # dec near slice boundary with high |dec|
        lo,hi=c.decBounds[i],c.decBounds[i+1]
        dec=hi-10.0**rng.uniform(-8,-1)*(hi-lo) if abs(hi)>abs(lo) else lo+10.0**rng.uniform(-8,-1)*(hi-lo)
        if rng.uniform()<0.3: dec=rng.uniform(lo,hi)
        dec=float(np.clip(dec,-89.999,89.999))
        cosd=np.cos(np.radians(dec))
        s=np.sin(np.radians(ml/2))/cosd
        if s>=1: continue
        dmax=np.degrees(2*np.arcsin(s))
        off=10.0**rng.uniform(-6,-1)*dmax
        d12=dmax*(1-10.0**rng.uniform(-7,-2))
        side=rng.choice([-1,1])
        p1=(edge+side*off)%360; p2=(edge-side*(d12-off))%360
        dec2=dec+rng.choice([0,1])*rng.normal(0,1e-3*ml)
        R1.append(p1); D1.append(dec); R2.append(p2); D2.append(float(np.clip(dec2,-89.999,89.999)))
    if not R2: return None
    return np.array(R1),np.array(D1),np.array(R2),np.array(D2)
tot=dict(n=0,missing=0,extra=0,dup=0,exc=0,cfg=0); exs=[]
t0=time.time()
for trial in range(400):
    dec0=float(rng.choice([0,30,60,75,80,84,86,88,-80,-86])+rng.uniform(-1,1))
    ml=float(10**rng.uniform(-2.5,0.5)); cs=float(ml*rng.choice([4,4,4,8,2,1.5]))
    try:
        g=guided(dec0,ml,cs,spread=float(ml*rng.uniform(2,8)))
    except Exception as e:
        tot["exc"]+=1; exs.append(str(e)); continue
    if g is None: continue
    r=check_match(*g,ml,cs)
    tot['cfg']+=1
    if isinstance(r,str): tot['exc']+=1; exs.append(r); continue
    for kk in ('n','missing','extra','dup'): tot[kk]+=r[kk]
    if r['missing'] and len(exs)<5: exs.append((dec0,ml,cs,r['missing']))
print(tot,'time %.1f'%(time.time()-t0)); print(exs[:5])
