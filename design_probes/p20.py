import numpy as np, warnings, os, tempfile, time, sys
warnings.simplefilter('ignore')
import matplotlib; matplotlib.use('Agg')
from astropy.io import fits
from astropy import log
log.setLevel('ERROR')
import pydl.pydlutils.sdss as S
S.maskbits = S.set_maskbits(maskbits_file='/tmp/probe/maskbits.par')
import pydl.pydlspec2d.spec1d as S1, pydl.pydlspec2d.spec2d as S2
PATCH = len(sys.argv)>1
if PATCH:
    _o=S.sdss_flagval
    S2.sdss_flagval=lambda a,b:int(_o(a,b))
    S.sdss_flagval=lambda a,b:int(_o(a,b))
d=tempfile.mkdtemp(); os.chdir(d)
top=os.path.join(d,'redux'); run2d='v5_7_0'
rng=np.random.default_rng(0)
def mk(plate,mjd,nfib,npix,c0,c1):
    p=os.path.join(top,run2d,'%04d'%plate); os.makedirs(os.path.join(p,run2d),exist_ok=True)
    lam=c0+c1*np.arange(npix)
    base=np.vstack([10+3*np.sin(lam*200+k)+k for k in range(nfib)])
    h0=fits.PrimaryHDU((base+rng.normal(0,0.1,base.shape)).astype('f4')); h0.header['COEFF0']=c0; h0.header['COEFF1']=c1
    hd=[h0,fits.ImageHDU(np.full(base.shape,100.,dtype='f4')),fits.ImageHDU(np.zeros(base.shape,'i4')),fits.ImageHDU(np.zeros(base.shape,'i4')),fits.ImageHDU(np.ones(base.shape,'f4'))]
    pm=np.zeros(nfib,dtype=[('FIBERID','i4'),('RA','f8'),('DEC','f8')]); pm['FIBERID']=np.arange(1,nfib+1)
    hd.append(fits.BinTableHDU(pm)); hd.append(fits.ImageHDU(np.zeros(base.shape,'f4')))
    fits.HDUList(hd).writeto(os.path.join(p,'spPlate-%04d-%05d.fits'%(plate,mjd)),overwrite=True)
mk(3587,55182,8,400,3.56,1e-4); mk(3588,55184,8,400,3.56,1e-4)
par=os.path.join(d,'in.par')
rows=''.join('EIGENOBJ %d %d %d %g\n'%(pl,mj,f,z) for pl,mj in [(3587,55182),(3588,55184)] for f,z in zip(range(1,9),rng.uniform(0,0.01,8)))
open(par,'w').write('''object gal
method %s
wavemin 3700
wavemax 3950
snmax 100
niter 3
nkeep 4
minuse 3
aesthetics mean
run2d v5_7_0
run1d v5_7_0
epsilon -1.0
nonnegative 0
typedef struct {
 int plate;
 int mjd;
 int fiberid;
 double zfit;
} EIGENOBJ;
''' % (sys.argv[2] if len(sys.argv)>2 else 'pca') + rows)
os.environ['BOSS_SPECTRO_REDUX']=top; os.environ['SPECTRO_MATCH']=d; os.environ['PHOTO_RESOLVE']=d
os.environ.pop('RUN2D',None); os.environ['RUN1D']='orig1d'
before=dict(os.environ)
t0=time.time()
try:
    S1.template_input(par, os.path.join(d,'dump.pkl'))
    print('completed')
except Exception as e:
    import traceback; traceback.print_exc()
after=dict(os.environ)
print('time',time.time()-t0, {k:(before.get(k),after.get(k)) for k in set(before)|set(after) if before.get(k)!=after.get(k)})
print(os.listdir(d))
