import sys, os, numpy as np, warnings, tempfile
warnings.simplefilter('ignore')
print('longdouble eps', np.finfo(np.longdouble).eps, np.sin(np.longdouble(1)).dtype)
# audit hook
events=[]
def hook(ev,args):
    if ev in ('os.putenv','os.unsetenv','open','os.remove','socket.connect'):
        events.append((ev,args if ev!='open' else (args[0],args[1])))
sys.addaudithook(hook)
os.environ['ZZ_TEST']='1'; del os.environ['ZZ_TEST']; os.environ.pop('NOPE',None)
d=tempfile.mkdtemp(); f=open(os.path.join(d,'x'),'w'); f.close(); f=open(os.path.join(d,'x'),'a'); f.close(); os.remove(os.path.join(d,'x'))
print([e for e in events if 'ZZ' in str(e) or d in str(e)])
# PY_START injection with direct-caller filter
mon=sys.monitoring
T=mon.DEBUGGER_ID; mon.use_tool_id(T,'fp')
class Inj(Exception): pass
def collab_a(): return 1
def collab_b(x): return x+1
def entry():
    a=collab_a()
    try:
        b=collab_b(a)
    except KeyError:
        b=0
    c=len([a,b])
    return a+b+c
st={'n':0,'target':None,'seen':[]}
def on_start(code, off):
    fr=sys._getframe(1)
    caller=fr.f_back
    if caller is not None and caller.f_code is entry.__code__:
        st['n']+=1; st['seen'].append(code.co_name)
        if st['n']==st['target']:
            raise Inj(code.co_name)
mon.register_callback(T, mon.events.PY_START, on_start)
def run(t):
    st.update(n=0,target=t,seen=[])
    mon.set_events(T, mon.events.PY_START)
    try:
        try: r=entry()
        except BaseException as e: r=repr(e)
    finally:
        mon.set_events(T, 0)
    return r, st['seen']
print(run(None)); print(run(1)); print(run(2))
# reach monitor with DISABLE
R=mon.PROFILER_ID; mon.use_tool_id(R,'reach')
hit=set()
def on_line(code,line):
    hit.add((code.co_name,line)); return mon.DISABLE
mon.register_callback(R, mon.events.LINE, on_line)
from pydl.pydlutils import spheregroup as SG
for fn in (SG.chunks.assign, SG.chunks.getbounds, SG.chunks.friendsoffriends, SG.spheregroup):
    mon.set_local_events(R, fn.__code__, mon.events.LINE)
rng=np.random.default_rng(0)
import time; t0=time.time()
for _ in range(20):
    SG.spheregroup(rng.uniform(0,5,60),rng.uniform(0,5,60),0.3)
print('reach lines', len(hit), 'time', time.time()-t0)
import dis
def nlines(code): return len({l for _,_,l in code.co_lines() if l})
print({fn.__name__: (len([h for h in hit if h[0]==fn.__name__]), nlines(fn.__code__)) for fn in (SG.chunks.assign, SG.chunks.getbounds, SG.chunks.friendsoffriends, SG.spheregroup)})
