import numpy as np, warnings
warnings.simplefilter('ignore')
from pydl.goddard.astro import gcirc
rng=np.random.default_rng(0)
LD=np.longdouble
def vecld(ra,dec):
    r=np.radians(ra.astype(LD)); d=np.radians(dec.astype(LD))
    return np.stack([np.cos(d)*np.cos(r),np.cos(d)*np.sin(r),np.sin(d)],-1)
def sepld(ra1,dec1,ra2,dec2):
    a=vecld(ra1,dec1); b=vecld(ra2,dec2)
    ch=np.sqrt(((a-b)**2).sum(-1)); ch2=np.sqrt(((a+b)**2).sum(-1))
    s=np.where(ch<1.5, 2*np.arcsin(np.minimum(ch/2,1)), np.pi-2*np.arcsin(np.minimum(ch2/2,1)))
    return np.degrees(s)
N=200000
ra1=rng.uniform(0,360,N); dec1=np.degrees(np.arcsin(rng.uniform(-1,1,N)))
dec1[:2000]=rng.choice([-90,90],2000); dec1[2000:6000]=rng.choice([-1,1],4000)*(90-10.0**rng.uniform(-9,0,4000))
s=10.0**rng.uniform(np.log10(1e-6/3600/1e0*1e-0),np.log10(180),N)  # 1 micro-arcsec..180 deg
s[:100]=180.0; s[100:300]=180-10.0**rng.uniform(-12,-3,200)
th=rng.uniform(0,2*np.pi,N)
a=vecld(ra1,dec1)
r=np.radians(ra1.astype(LD)); d=np.radians(dec1.astype(LD))
east=np.stack([-np.sin(r),np.cos(r),0*r],-1); north=np.stack([-np.sin(d)*np.cos(r),-np.sin(d)*np.sin(r),np.cos(d)],-1)
dirn=np.cos(th.astype(LD))[:,None]*east+np.sin(th.astype(LD))[:,None]*north
sr=np.radians(s.astype(LD))
b=np.cos(sr)[:,None]*a+np.sin(sr)[:,None]*dirn
ra2=(np.degrees(np.arctan2(b[:,1],b[:,0]))%360).astype('d'); dec2=np.degrees(np.arcsin(np.clip(b[:,2],-1,1))).astype('d')
ref=sepld(ra1,dec1,ra2,dec2)    # reference from the float64 inputs actually passed
g=gcirc(ra1,dec1,ra2,dec2,units=2)/3600.0
rel=np.abs(g-ref.astype('d'))/np.maximum(ref.astype('d'),1e-300)
print('nan',np.isnan(g).sum(),'range',g.min(),g.max())
for lo,hi in [(0,1e-8),(1e-8,1e-5),(1e-5,1e-2),(1e-2,1),(1,90),(90,179),(179,180.0001)]:
    m=(ref>=lo)&(ref<hi)
    if m.any(): print('sep [%g,%g) n=%d max rel err %.3g max abs err(deg) %.3g'%(lo,hi,m.sum(),rel[m].max(),np.abs(g-ref.astype('d'))[m].max()))
g2=gcirc(ra2,dec2,ra1,dec1,units=2)/3600.0; print('symmetry max rel',np.nanmax(np.abs(g-g2)/np.maximum(g,1e-300)))
g0=np.degrees(gcirc(np.radians(ra1),np.radians(dec1),np.radians(ra2),np.radians(dec2),units=0)); g1=gcirc(ra1/15,dec1,ra2/15,dec2,units=1)/3600
print('units agree', np.nanmax(np.abs(g0-g)/np.maximum(g,1e-300)), np.nanmax(np.abs(g1-g)/np.maximum(g,1e-300)))
