import numpy as np, warnings
warnings.simplefilter('ignore')
from pydl.pydlutils.spheregroup import spherematch
exec(open("sm_common.py").read())
rng=np.random.default_rng(3)
bad=0; n=0
for trial in range(300):
    n1=int(rng.integers(2,40)); n2=int(rng.integers(1,40))
    ra1=rng.uniform(10,12,n1); dec1=rng.uniform(20,22,n1); ra2=rng.uniform(10,12,n2); dec2=rng.uniform(20,22,n2)
    ml=float(rng.uniform(0.1,0.8)); k=int(rng.integers(1,4))
    m1,m2,d=spherematch(ra1,dec1,ra2,dec2,ml,maxmatch=k)
    S=sep(ra1,dec1,ra2,dec2)
    got=set(zip(m1.tolist(),m2.tolist()))
    ok=len(got)==len(m1) and all(S[i,j]<ml*(1+1e-9) for i,j in got)
    c1=np.bincount(m1,minlength=n1); c2=np.bincount(m2,minlength=n2)
    ok&=c1.max(initial=0)<=k and c2.max(initial=0)<=k
    ok&=bool(np.all(np.diff(d)>=0))
    # greedy maximality
    for i in range(n1):
        for j in range(n2):
            if S[i,j]<ml*(1-1e-9) and (i,j) not in got:
                ui=sum(1 for (a,b),dd in zip(zip(m1,m2),d) if a==i and dd<=S[i,j]*(1+1e-9))
                uj=sum(1 for (a,b),dd in zip(zip(m1,m2),d) if b==j and dd<=S[i,j]*(1+1e-9))
                if not (ui>=k or uj>=k): ok=False
    n+=1
    if not ok: bad+=1
print('maxmatch cases',n,'bad',bad)
