import numpy as np, warnings, time
warnings.simplefilter('ignore')
import pydl.pydlutils.sdss as S
S.maskbits = S.set_maskbits(maskbits_file='/tmp/probe/maskbits.par')
import pydl.pydlspec2d.spec2d as SP
_orig=SP.sdss_flagval
SP.sdss_flagval=lambda a,b:int(_orig(a,b))
from pydl.pydlspec2d.spec2d import combine1fiber
rng=np.random.default_rng(0)
EPS=np.finfo(np.float32).eps
viol=0; exc=0; ncase=0; nz_frac=[]; t0=time.time(); interp_bad=0
for trial in range(300):
    n=int(rng.integers(150,400)); dl=1e-4
    ll=3.5+dl*np.arange(n)
    fl=10+np.sin(np.arange(n)/rng.uniform(15,40))*rng.uniform(0,3)
    iv=rng.uniform(1,5,n)
    pat=rng.integers(0,6)
    if pat==1: iv[:rng.integers(1,20)]=0; iv[-rng.integers(1,20):]=0
    elif pat==2:
        for _ in range(rng.integers(1,5)):
            a=rng.integers(0,n-1); iv[a:a+rng.integers(1,40)]=0
    elif pat==3: iv[rng.uniform(size=n)<rng.uniform(0.02,0.5)]=0
    elif pat==4: iv[::2]=0
    elif pat==5:
        a=rng.integers(20,n-20); iv[a-5:a]=0; iv[a+1:a+6]=0   # isolated good pixel
    g=rng.integers(0,5)
    if g==0: nl=ll.copy()
    elif g==1: nl=ll+rng.uniform(-1,1)*dl
    elif g==2: nl=3.5+dl*(np.arange(-rng.integers(1,60),n+rng.integers(1,60))+rng.uniform(0,1))
    elif g==3: nl=3.5+dl*rng.integers(2,4)*np.arange(n//3)+rng.uniform(0,1)*dl
    else: nl=ll[rng.integers(5,40):-rng.integers(5,40)]+rng.uniform(0,1)*dl
    meth=['traditional','noconst','nothing'][rng.integers(0,3)]
    try:
        f,i=combine1fiber(ll,fl,nl,objivar=iv.copy(),aesthetics=meth)
    except Exception as e:
        exc+=1; print('EXC',type(e).__name__,e,pat,g); continue
    ncase+=1
    ok=np.isfinite(f).all() and np.isfinite(i).all() and (i>=0).all() and len(f)==len(nl)
    # must-be-zero set
    good=iv>0
    idx=np.searchsorted(ll,nl,side='right')-1   # ll[idx]<=x<ll[idx+1]
    Z=np.ones(len(nl),bool)
    for j,x in enumerate(nl):
        k=idx[j]
        on=False
        # on a good pixel (band)
        for kk in (k,k+1):
            if 0<=kk<n and good[kk] and abs(x-ll[kk])<=2*EPS*dl*1.0+2*EPS*abs(x): on=True
        inside=False
        if 0<=k<n-1 and good[k] and good[k+1] and ll[k]<=x<=ll[k+1]: inside=True
        if k==n-1 and x==ll[k] and good[k] and good[k-1]: inside=True
        Z[j]=not (inside or on)
    bad=Z&(i!=0)
    if bad.any() or not ok:
        viol+=1; print('VIOL',trial,pat,g,np.nonzero(bad)[0][:5], ok)
    # nonzero ivar equals interp
    nzm=i>0
    if nzm.any():
        ref=np.interp(nl[nzm],ll,iv)
        if np.abs(i[nzm]-ref).max()>1e-9*ref.max(): interp_bad+=1; print('INTERP',trial,np.abs(i[nzm]-ref).max())
    nz_frac.append(nzm.mean())
print('cases',ncase,'exc',exc,'viol',viol,'interp_bad',interp_bad,'mean nonzero frac',np.mean(nz_frac),'time',time.time()-t0)
