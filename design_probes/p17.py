import sys, os, warnings, numpy as np, tempfile
warnings.simplefilter('ignore')
from astropy.io import fits
import pydl.photoop.window as W
from pydl.photoop import PhotoopException
mon=sys.monitoring
TOOL=mon.DEBUGGER_ID
mon.use_tool_id(TOOL,'failpoints')
class Injected(Exception): pass
state={'count':0,'target':None,'lines':[]}
def on_line(code, line):
    state['count']+=1
    state['lines'].append(line)
    if state['target'] is not None and state['count']==state['target']:
        raise Injected('line %d'%line)
mon.register_callback(TOOL, mon.events.LINE, on_line)
code=W.window_score.__code__
# environment
d=tempfile.mkdtemp()
a=np.zeros(3,dtype=[('SCORE','f4'),('RUN','i4')])
fits.HDUList([fits.PrimaryHDU(),fits.BinTableHDU(a)]).writeto(os.path.join(d,'window_flist.fits'))
W.sdss_score=lambda flist,**kw: np.ones(3,dtype='f4')
def run(target, calib='/calib', rescore=False):
    os.environ['PHOTO_RESOLVE']=d
    if calib is None: os.environ.pop('PHOTO_CALIB',None)
    else: os.environ['PHOTO_CALIB']=calib
    before=dict(os.environ)
    state['count']=0; state['target']=target; state['lines']=[]
    mon.set_local_events(TOOL, code, mon.events.LINE)
    exc=None
    try:
        W.window_score(rescore=rescore)
    except BaseException as e:
        exc=type(e).__name__
    finally:
        mon.set_local_events(TOOL, code, 0)
    after=dict(os.environ)
    diff={k:(before.get(k),after.get(k)) for k in set(before)|set(after) if before.get(k)!=after.get(k)}
    return exc, state['count'], diff
print('clean', run(None))
n=run(None)[1]
for k in range(1,n+1):
    print(k, run(k))
    p=os.path.join(d,'window_flist_rescore.fits')
