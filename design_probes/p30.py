import numpy as np, warnings
warnings.simplefilter('ignore')
from pydl.pydlutils.math import djs_reject
from pydl.pydlutils.image import djs_maskinterp
from pydl import smooth, rebin, median, uniq
from pydl.pydlutils.trace import func_fit, fpoly, fchebyshev, fchebyshev_split
from pydl.goddard.math import flegendre
rng=np.random.default_rng(0)
# djs_reject (no grow)
bad=0;n=0;exc=0
for trial in range(2000):
    N=int(rng.integers(1,60)); data=rng.normal(size=N)*3; model=rng.normal(size=N)*0.1
    kw={}
    mode=rng.integers(0,3)
    if mode==0: s=rng.uniform(0.5,2,N); s[rng.uniform(size=N)<0.1]=0; kw['sigma']=s; sc=np.where(s>0,1/np.where(s>0,s,1),np.inf)
    elif mode==1: iv=rng.uniform(0.2,4,N); iv[rng.uniform(size=N)<0.1]=0; kw['invvar']=iv; sc=np.sqrt(iv)
    else: sc=None
    lo=rng.uniform(0.5,4) if rng.uniform()<0.7 else None; up=rng.uniform(0.5,4) if rng.uniform()<0.7 else None
    md=rng.uniform(1,6) if rng.uniform()<0.4 else None
    if sc is None and (lo is not None or up is not None):
        pass
    inm=rng.uniform(size=N)<0.8 if rng.uniform()<0.6 else None
    outm=rng.uniform(size=N)<0.8 if rng.uniform()<0.6 else None
    sticky=bool(rng.integers(0,2))
    if lo is not None: kw['lower']=lo
    if up is not None: kw['upper']=up
    if md is not None: kw['maxdev']=md
    try:
        m,q=djs_reject(data,model,inmask=inm,outmask=None if outm is None else outm.copy(),sticky=sticky,**kw)
    except Exception as e:
        exc+=1; print('EXC',type(e).__name__,e,mode); continue
    diff=data-model
    rej=np.zeros(N,bool)
    if sc is None:
        # estimated sigma
        ig=np.ones(N,bool)
        if inm is not None: ig&=inm
        if outm is not None: ig&=outm
        sg=np.std(diff[ig]) if ig.sum()>0 else 0.0
        if lo is not None: rej|= diff< -lo*sg
        if up is not None: rej|= diff> up*sg
    elif mode==0:
        s=kw['sigma']
        if lo is not None: rej|= diff< -lo*s
        if up is not None: rej|= diff> up*s
    else:
        r=diff*sc
        if lo is not None: rej|= r< -lo
        if up is not None: rej|= r> up
    if md is not None: rej|=np.abs(diff)>md
    exp=~rej
    if inm is not None: exp&=inm
    if sticky and outm is not None: exp&=outm
    om=np.ones(N,bool) if outm is None else outm
    eq=bool((exp==om).all())
    n+=1
    if not ((m==exp).all() and q==eq): bad+=1; print('BAD',trial,mode,lo,up,md,sticky,inm is None,outm is None,(m!=exp).sum(),q,eq)
print('djs_reject cases',n,'bad',bad,'exc',exc)
# smooth oracle
def smooth_ref(s,w,et):
    if w%2==0: w+=1
    if w<3: return s.copy()
    h=(w-1)//2; n=len(s); out=s.copy()
    for i in range(n):
        if h<=i<=n-1-h: out[i]=s[i-h:i+h+1].sum()/w
        elif et:
            idx=np.clip(np.arange(i-h,i+h+1),0,n-1); out[i]=s[idx].sum()/w
    return out
bad=0
for trial in range(3000):
    n=int(rng.integers(1,50)); w=int(rng.integers(1,n+1)); et=bool(rng.integers(0,2))
    s=rng.normal(size=n)
    if (w+1 if w%2==0 else w)>n: continue
    if not np.allclose(smooth(s,w,et),smooth_ref(s,w,et),rtol=1e-12,atol=1e-12): bad+=1; print('SMOOTH BAD',n,w,et)
print('smooth bad',bad)
# rebin oracle (exact integer arithmetic) for factors <= 8
def rebin_ref(x,d,sample):
    xx=x.copy()
    for k in range(x.ndim):
        d0=xx.shape[k]; dk=d[k]
        xx=np.moveaxis(xx,k,0)
        if dk>d0:
            out=np.zeros((dk,)+xx.shape[1:],dtype=x.dtype)
            for i in range(dk):
                fp=(i*d0)//dk; fr=(i*d0)/dk-fp
                if sample or i*d0>=(d0-1)*dk: out[i]=xx[fp]
                else: out[i]=xx[fp]+fr*(xx[fp+1]-xx[fp])
        elif dk==d0: out=xx.copy()
        else:
            f=d0//dk; out=np.zeros((dk,)+xx.shape[1:],dtype=x.dtype)
            for i in range(dk):
                if sample: out[i]=xx[f*i]
                else:
                    sm=xx[f*i:f*(i+1)].sum(0)
                    out[i]=sm//f if x.dtype.kind in 'iu' else sm/f
        xx=np.moveaxis(out,0,k)
    return xx
bad=0;n=0
for trial in range(1500):
    nd=int(rng.integers(1,4)); shp=tuple(int(v) for v in rng.integers(1,7,nd))
    fac=[int(rng.integers(1,9)) for _ in range(nd)]; mode=[rng.integers(0,3) for _ in range(nd)]
    d=[]; 
    shp=list(shp)
    for k in range(nd):
        if mode[k]==0: d.append(shp[k]*fac[k])
        elif mode[k]==1: d.append(shp[k])
        else: shp[k]=shp[k]*fac[k]; d.append(shp[k]//fac[k])
    dt=['f8','f4','i4','i2'][rng.integers(0,4)]
    x=(rng.normal(size=shp)*50).astype(dt)
    sample=bool(rng.integers(0,2))
    r=rebin(x,tuple(d),sample=sample); rr=rebin_ref(x,d,sample)
    n+=1
    ok=r.shape==tuple(d) and r.dtype==x.dtype and (np.array_equal(r,rr) if (sample or x.dtype.kind in 'iu') else np.allclose(r,rr,rtol=1e-5 if dt=='f4' else 1e-12,atol=1e-4 if dt=='f4' else 1e-12))
    if not ok: bad+=1; print('REBIN BAD',shp,d,dt,sample, np.abs(r.astype('d')-rr.astype('d')).max())
print('rebin cases',n,'bad',bad)
