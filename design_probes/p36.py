import numpy as np, warnings
warnings.simplefilter('ignore')
from pydl.pydlspec2d.spec2d import filter_thru
from pydl.pydlutils.sdss import sdss_objid, sdss_specobjid, unwrap_specobjid
from pydl.photoop.photoobj import unwrap_objid
from pydl.pydlutils.trace import func_fit, fpoly, fchebyshev, fchebyshev_split
from pydl.goddard.math import flegendre
rng=np.random.default_rng(0)
# filter_thru bounds with negative flux, random wavelength solutions
bad=0
for trial in range(40):
    nT=int(rng.integers(1,4)); nx=int(rng.integers(60,500))
    l0=rng.uniform(3.45,3.7); dl=rng.uniform(0.5e-4,4e-4)
    ll=l0+dl*np.arange(nx)+rng.uniform(-0.01,0.01,(nT,1))
    w=10**ll
    flux=rng.normal(0,3,(nT,nx))
    r=filter_thru(flux,waveimg=w)
    one=filter_thru(np.ones_like(flux),waveimg=w)
    for t in range(nT):
        for b in range(5):
            if one[t,b]==0:
                if r[t,b]!=0: bad+=1; print('nonzero w/o overlap')
            else:
                if abs(one[t,b]-1)>1e-12: bad+=1; print('const',one[t,b])
                if not (flux[t].min()-1e-9<=r[t,b]<=flux[t].max()+1e-9): bad+=1; print('bounds')
print('filter_thru bad',bad)
# objid sweeps vectorised
def ref_objid(sky,rerun,run,camcol,first,field,obj): return (sky<<59)|(rerun<<48)|(run<<32)|(camcol<<29)|(first<<28)|(field<<16)|obj
for name,rng_ in [('run',2**16),('obj',2**16),('field',2**12),('rerun',2**11)]:
    v=np.arange(rng_,dtype=np.int64)
    for ext in (0,1):
        base=dict(sky=15*ext,rerun=2047*ext,run=65535*ext,camcol=1+5*ext,first=ext,field=4095*ext,obj=65535*ext)
        arrs={k:np.full(rng_,val,dtype=np.int64) for k,val in base.items()}; arrs[name]=v
        got=sdss_objid(arrs['run'],arrs['camcol'],arrs['field'],arrs['obj'],rerun=arrs['rerun'],skyversion=arrs['sky'],firstfield=arrs['first'])
        exp=np.array([ref_objid(*(int(arrs[k][i]) for k in ('sky','rerun','run','camcol','first','field','obj'))) for i in range(0,rng_,max(1,rng_//512))])
        ok=(got[::max(1,rng_//512)].astype(object)==exp).all()
        u=unwrap_objid(got)
        ok2=all((u[f]==arrs[k]).all() for f,k in [('skyversion','sky'),('rerun','rerun'),('run','run'),('camcol','camcol'),('firstfield','first'),('frame','field'),('id','obj')])
        print('objid sweep',name,ext,ok,ok2)
# specobjid sweeps (mjd given pre-subtracted because of F-S1)
for name,rng_ in [('plate',2**14),('fiber',2**12),('mjd',2**14),('run2d',2**14),('line',2**10)]:
    v=np.arange(rng_,dtype=np.int64)
    for ext in (0,1):
        base=dict(plate=16383*ext,fiber=4095*ext,mjd=16383*ext,run2d=16383*ext,line=1023*ext)
        arrs={k:np.full(rng_,val,dtype=np.int64) for k,val in base.items()}; arrs[name]=v
        got=sdss_specobjid(arrs['plate'],arrs['fiber'],arrs['mjd'],arrs['run2d'],line=arrs['line'])
        exp=(arrs['plate'].astype(object)<<50)|(arrs['fiber'].astype(object)<<38)|(arrs['mjd'].astype(object)<<24)|(arrs['run2d'].astype(object)<<10)|arrs['line'].astype(object)
        ok=(got.astype(object)==exp).all()
        u=unwrap_specobjid(got,run2d_integer=True)
        ok2=(u.plate==arrs['plate']).all() and (u.fiber==arrs['fiber']).all() and (u.mjd==arrs['mjd']+50000).all() and (u.run2d==arrs['run2d']).all() and (u.line==arrs['line']).all()
        print('specobjid sweep',name,ext,ok,ok2)
# func_fit random with ia/inputfunc
basis={'legendre':flegendre,'chebyshev':fchebyshev,'poly':fpoly,'chebyshev_split':fchebyshev_split}
worst=0;n=0
for trial in range(500):
    fn=list(basis)[rng.integers(0,4)]; nc=int(rng.integers(2 if fn=='chebyshev_split' else 1,8)); N=int(rng.integers(nc+3,120))
    x=rng.uniform(-1,1,N); y=rng.normal(size=N); iv=rng.uniform(0.2,3,N); iv[rng.uniform(size=N)<0.15]=0
    ia=rng.uniform(size=nc)<0.7
    if not ia.any(): ia[0]=True
    ans=rng.normal(size=nc)
    inf=rng.uniform(0.5,2,N) if rng.uniform()<0.3 else None
    if (iv>0).sum()<nc+1: continue
    res,yfit=func_fit(x,y,nc,invvar=iv,function_name=fn,ia=ia,inputans=ans,inputfunc=inf)
    B=basis[fn](x,nc).T.copy()
    if inf is not None: B*=inf[:,None]
    yf=y-B[:,~ia]@ans[~ia]
    s=np.sqrt(iv)
    c=np.linalg.lstsq(B[:,ia]*s[:,None],yf*s,rcond=None)[0]
    exp=ans.copy(); exp[ia]=c
    worst=max(worst,np.abs(res-exp).max()/max(1,np.abs(exp).max())); n+=1
    if not (res[~ia]==ans[~ia]).all(): print('fixed not exact')
print('func_fit cases',n,'worst rel dev',worst)
