import numpy as np, os, tempfile, random, warnings, sys, collections, shutil
warnings.simplefilter('ignore')
from pydl.pydlutils.yanny import yanny, write_ndarray_to_yanny
R=random.Random(int(sys.argv[1]) if len(sys.argv)>1 else 0)
d=tempfile.mkdtemp()
IDCH='abcdefghijklmnoprstuvwxyABCDEFGHIJKLMNOPRSTUVWXY'
def ident(): return ''.join(R.choice(IDCH) for _ in range(R.randint(1,6)))+R.choice(['','_'+str(R.randint(0,9))])
STRCH='abcXYZ019_-+.:;,/()[]<>=!?*&^%$@~|\'`{}# \t\\'
def rstr(maxlen, arr=False):
    while True:
        s=''.join(R.choice(STRCH) for _ in range(R.randint(0,maxlen)))
        if s.startswith('{'): continue
        if arr and '}' in s: continue
        return s
def rfloat(dt):
    fi=np.finfo(dt)
    v=R.choice([0.0,-0.0,1.5,float('nan'),float('inf'),float('-inf'),float(fi.max),float(fi.tiny),float(np.nextafter(dt(0),dt(1))),R.uniform(-1,1),R.uniform(-1e30,1e30),1/3,0.1])
    return dt(v)
def rint(b): return R.choice([0,1,-1,2**b-1,-2**b,R.randint(-2**b,2**b-1)])
bad=0;exc=0;n=0;kinds=collections.Counter()
for trial in range(int(sys.argv[2]) if len(sys.argv)>2 else 800):
    ntab=R.randint(1,3); tabs=[]; names=[]
    for t in range(ntab):
        nm='ZQ%d'%t+ident()[:3]
        cols=[];used=set()
        for _ in range(R.randint(1,6)):
            cn=ident()
            if cn.lower() in used or 'zq' in cn.lower(): continue
            used.add(cn.lower())
            k=R.choice(['i2','i4','i8','f4','f8','S','Sa','na'])
            if k=='S': cols.append((cn,'S%d'%R.randint(1,10)))
            elif k=='Sa': cols.append((cn,'S%d'%R.randint(1,8),(R.randint(1,3),)))
            elif k=='na': cols.append((cn,R.choice(['i2','i4','i8','f4','f8']),(R.randint(1,4),)))
            else: cols.append((cn,k))
        if not cols: cols=[('x','i4')]
        nrows=R.choice([0,1,2,5])
        a=np.zeros(nrows,dtype=cols)
        for c in a.dtype.names:
            sub=a.dtype[c].subdtype; base=sub[0] if sub else a.dtype[c]; shape=sub[1] if sub else ()
            if nrows==0: continue
            def one():
                if base.kind=='i': return rint(base.itemsize*8-1)
                if base.kind=='f': return rfloat(base.type)
                s=rstr(base.itemsize, arr=bool(shape))
                return s.encode()
            if shape: 
                vals=[[one() for _ in range(shape[0])] for _ in range(nrows)]
            else: vals=[one() for _ in range(nrows)]
            # last column backslash rule
            a[c]=vals
        # format limit: last column must not end with backslash
        lastc=a.dtype.names[-1]
        if a.dtype[lastc].kind=='S' or (a.dtype[lastc].subdtype and a.dtype[lastc].subdtype[0].kind=='S'):
            flat=np.atleast_1d(a[lastc]).ravel()
            if any(x.endswith(b'\\') for x in flat): continue_outer=True
            else: continue_outer=False
            if continue_outer: break
        # zero-row + array col → known F-Y2: skip
        if nrows==0 and any(a.dtype[c].subdtype for c in a.dtype.names): break
        tabs.append(a); names.append(nm)
    else:
        fn=os.path.join(d,'t%d.par'%trial)
        hdr={ident():R.choice([R.randint(-5,5),R.uniform(0,1),'txt '+str(trial),'']) for _ in range(R.randint(0,3))}
        try:
            p=write_ndarray_to_yanny(fn,tabs,structnames=names,hdr=hdr or None)
            q=yanny(fn)
        except Exception as e:
            exc+=1; kinds[type(e).__name__+':'+str(e)[:60]]+=1
            if exc<=3: print('EXC',type(e).__name__,e,[t.dtype for t in tabs],[t for t in tabs]); 
            continue
        n+=1
        ok=True
        for nm,a in zip(names,tabs):
            for obj in (p,q):
                t=obj[nm.upper()]
                if t.dtype.names!=a.dtype.names or len(t)!=len(a): ok=False; kinds['shape']+=1; continue
                for c in a.dtype.names:
                    if t.dtype[c]!=a.dtype[c].newbyteorder('='): ok=False; kinds['dtype %s %s'%(t.dtype[c],a.dtype[c])]+=1; continue
                    if len(a)==0: continue
                    base=a.dtype[c].subdtype[0] if a.dtype[c].subdtype else a.dtype[c]
                    if base.kind=='f':
                        x=np.ascontiguousarray(t[c]).view('u%d'%base.itemsize); y=np.ascontiguousarray(a[c]).view('u%d'%base.itemsize)
                        nn=np.isnan(a[c])
                        if not ((x==y)|(nn&np.isnan(t[c]))).all(): ok=False; kinds['float']+=1
                    else:
                        if not (t[c]==a[c]).all(): ok=False; kinds['val '+base.kind]+=1; 
        for k,v in hdr.items():
            if q[k]!=str(v): ok=False; kinds['hdr']+=1
        if not ok:
            bad+=1
            if bad<=3: print('BAD',open(fn).read()[:800])
print('ok cases',n,'bad',bad,'exc',exc,dict(kinds))
shutil.rmtree(d)
