import numpy as np, warnings, time
warnings.simplefilter('ignore')
from scipy.interpolate import BSpline
from pydl.pydlutils.bspline import bspline, iterfit
rng=np.random.default_rng(0)
def design(t,k,x):
    # dense design matrix via scipy (reference #2); own recursion will be reference #1
    n=len(t)-k
    A=np.zeros((len(x),n))
    for j in range(n):
        c=np.zeros(n); c[j]=1
        A[:,j]=np.nan_to_num(BSpline(t,c,k-1,extrapolate=False)(x))
    # right end closed
    return A
def wls(A,y,w):
    s=np.sqrt(w)
    return np.linalg.lstsq(A*s[:,None],y*s,rcond=None)[0]
worst=0; worst_poly=0; nst=0; t0=time.time(); fails=0
for trial in range(300):
    n=rng.integers(40,300); nord=int(rng.integers(2,6))
    x=np.sort(rng.uniform(0,10,n)) if rng.uniform()<0.5 else np.sort(np.concatenate([rng.uniform(0,10,n//2),rng.normal(5,1,n-n//2).clip(0,10)]))
    nb=int(rng.integers(2,max(3,n//(2*(nord+1)))))
    s=bspline(x,nord=nord,nbkpts=nb)
    t=s.breakpoints.astype('d')
    # ensure support: each interval has >= nord+1 points
    bp=t[nord-1:len(t)-nord+1]
    cnt=np.histogram(x,bins=bp)[0]
    if cnt.min()<nord+1: continue
    w=10**rng.uniform(-1,1,n); w[rng.uniform(size=n)<0.1]=0
    cntw=np.histogram(x[w>0],bins=bp)[0]
    if cntw.min()<nord+1: continue
    y=np.sin(x)+rng.normal(0,0.1,n)
    st,yfit=s.fit(x,y,w)
    nst+=1
    if st!=0: fails+=1; continue
    A=design(t,nord,x); A[x==bp[-1],:]=0
    # handle right end: evaluate slightly inside
    xe=np.where(x>=bp[-1],bp[-1]-1e-12*(bp[-1]-bp[0]),x); A=design(t,nord,xe)
    c=wls(A,y,w)
    worst=max(worst,np.abs(A@c-yfit).max()/np.abs(y).max())
    # polynomial reproduction
    p=np.polyval(rng.normal(size=nord),x/10)
    st2,pf=s.fit(x,p,w); worst_poly=max(worst_poly,np.abs(pf-p).max()/np.abs(p).max())
print('well-posed',nst,'status!=0',fails,'worst fit dev',worst,'worst poly',worst_poly,'time',time.time()-t0)
# iterfit reference loop
def ref_iterfit(x,y,iv,t,k,upper,lower,maxiter):
    xs=np.argsort(x,kind='stable'); 
    mask=iv>0; it=0; qdone=False; near=False
    xe=np.where(x>=t[len(t)-k],t[len(t)-k]-1e-12,x)
    A=design(t,k,xe)
    while (not qdone) and it<=maxiter:
        c=wls(A,y,iv*mask); fit=A@c
        r=(y-fit)*np.sqrt(iv)
        bad=(r< -lower)|(r>upper)
        near|=bool(np.any(mask & ((np.abs(r+lower)<1e-6)|(np.abs(r-upper)<1e-6))))
        new=mask&~bad
        qdone=bool((new==mask).all()); mask=new; it+=1
    return c,fit,mask,near
agree=0;dis=0;und=0;worstc=0
for trial in range(200):
    n=int(rng.integers(60,250)); k=int(rng.integers(2,5))
    x=rng.uniform(0,10,n); y=np.sin(x)+rng.normal(0,0.1,n)
    iv=np.full(n,100.)*10**rng.uniform(-0.3,0.3,n); iv[rng.uniform(size=n)<0.05]=0
    nout=int(rng.integers(0,5)); io=rng.choice(n,nout,replace=False); y[io]+=rng.choice([-1,1],nout)*rng.uniform(5,20,nout)
    up=float(rng.uniform(2.5,6)); lo=float(rng.uniform(2.5,6)); mi=int(rng.integers(0,8))
    try:
        s,m=iterfit(x,y,invvar=iv,nord=k,bkspace=float(rng.uniform(1.0,3.0)),upper=up,lower=lo,maxiter=mi)
    except Exception as e:
        print('EXC',type(e).__name__,e); continue
    c,fit,mask,near=ref_iterfit(x,y,iv,s.breakpoints.astype('d'),k,up,lo,mi)
    yv,_=s.value(x)
    if near: und+=1; continue
    if (mask==m).all(): agree+=1; worstc=max(worstc,np.abs(yv-fit).max())
    else: dis+=1; print('DISAGREE',trial,n,k,up,lo,mi,(mask!=m).sum())
print('iterfit agree',agree,'disagree',dis,'undecided',und,'worst curve dev',worstc)
