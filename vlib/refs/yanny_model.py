"""Table-set model shared by the yanny checks (C01 round trip, C03 histories).

A *table set* is JSON: {'tables': [{'name', 'cols': [{'name','kind','width','alen','enum'}], 'rows': [[cell..]..]}],
                        'enums': {colname: [TYPENAME, [labels]]}, 'hdr': [[key, value-as-json, vtype]]}
cells: ints as int, strings as str (ASCII), floats as 'f4:XXXXXXXX' / 'f8:XXXXXXXXXXXXXXXX' hex bit patterns
(bit-exact, so NaN, -0.0, denormals survive JSON).
"""
import numpy as np

IDCH = 'abcdefghijklmnoprstuvwxyABCDEFGHIJKLMNOPRSTUVWXY'
KEYWORDS = {'int', 'short', 'long', 'float', 'double', 'char', 'typedef', 'struct', 'enum', 'symbols',
            'unsigned', 'signed', 'const', 'void', 'for', 'if', 'do'}
# in-domain string alphabet: everything printable the format can carry (no double quote, no non-ASCII)
STRCH = 'abcXYZ019_-+.:;,/()[]<>=!?*&^%$@~|\'`{}# \t\\'
# words with a meaning elsewhere in the format (or in the implementation) that are nevertheless legal pair keywords
# ('typedef' itself is not among them: a line that starts with it starts a definition, which may continue on the next lines -
# `typedef` / `struct {...` on two lines is a definition, not two pairs)
RESERVED_KEYS = ['enum', 'struct', 'int', 'short', 'long', 'float', 'double', 'char', 'Enum', 'STRUCT', 'unsigned']


def pair_key(rng, lo=1, hi=8, p_reserved=0.2):
    """A pair keyword: an identifier, or (with probability p_reserved) one of RESERVED_KEYS."""
    if rng.random() < p_reserved:
        return rng.choice(RESERVED_KEYS)
    return ident(rng, lo, hi)


# strings built from the vocabulary of the format itself, all within what the format can express (no double quote, no
# leading '{'; the array-element pool additionally drops everything holding a '}')
FORMAT_WORDS = ['typedef', 'enum', 'struct', 'typedef struct', 'typedef enum', 'char', 'int', ';', 'x;', '};', '}', 'a}', 'x{',
                'a{b}', 'a{{}}', ';;{{{}}', 'x{{{}}', 'a{ {{}}', 'b{{ }}', 'q{}', 'q{ }', 'T;', 'MYSTRUCT', 'symbols', 'a {{}} b',
                '[3]', 'x[2]', '<3>', '\\{', 'end\\ x', '0x10', '1e', 'nan', '-', '+', '# typedef struct {', 'enum {A} T;']

NUMKINDS = ['i2', 'i4', 'i8', 'f4', 'f8']


def ident(rng, lo=1, hi=6, suffix=True):
    while True:
        s = ''.join(rng.choice(IDCH) for _ in range(rng.randint(lo, hi)))
        if suffix and rng.random() < 0.3:
            s += '_' + str(rng.randint(0, 9))
        if s.lower() not in KEYWORDS:
            return s


def rstr(rng, maxlen, in_array=False, torture=False):
    """A string the format can express (see C01 domain notes)."""
    while True:
        n = rng.randint(0, maxlen)
        if torture:
            m = rng.randint(0, 10)
            if m == 0:
                s = ''
            elif m == 10:
                # ASCII control characters that some "split into lines / words" routines treat as separators
                # (VT, FF, FS, GS, RS, US) next to ordinary text
                s = ''.join(rng.choice('ab 1\x0b\x0c\x1c\x1d\x1e\x1f') for _ in range(n))
            elif m == 1:
                s = ' ' * rng.randint(1, max(1, maxlen))
            elif m == 2:
                s = ''.join(rng.choice(' \t#;{}') for _ in range(n))
            elif m == 3:
                s = rng.choice(['123', '-4.5e3', 'nan', 'inf', '0x10', '1e', '+7'])[:maxlen]
            elif m == 4:
                s = rng.choice(['typedef', 'struct', 'MYSTRUCT0', 'enum', 'char', 'int'])[:maxlen]
            elif m == 5:
                s = (' ' + ''.join(rng.choice(STRCH) for _ in range(max(0, n - 2))) + ' ')[:maxlen]
            elif m == 6:
                s = ''.join(rng.choice('a#b \t') for _ in range(n))
            else:
                s = ''.join(rng.choice(STRCH) for _ in range(n))
        else:
            s = ''.join(rng.choice(STRCH) for _ in range(n))
        if s.startswith('{'):
            continue
        if in_array and '}' in s:
            continue
        if s.endswith('\x00'):
            continue
        return s


def fbits(v, kind):
    """float -> 'f4:hex' / 'f8:hex'"""
    if kind == 'f4':
        return 'f4:%08x' % int(np.array(v, dtype='<f4').view('<u4'))
    return 'f8:%016x' % int(np.array(v, dtype='<f8').view('<u8'))


def unfbits(s):
    kind, h = s.split(':')
    if kind == 'f4':
        return np.array(int(h, 16), dtype='<u4').view('<f4')[()]
    return np.array(int(h, 16), dtype='<u8').view('<f8')[()]


def rfloat(rng, kind, extreme=False):
    dt = np.float32 if kind == 'f4' else np.float64
    fi = np.finfo(dt)
    if extreme:
        m = rng.randint(0, 13)
        v = [0.0, -0.0, float('nan'), float('inf'), float('-inf'), float(fi.max), -float(fi.max), float(fi.tiny),
             float(np.nextafter(dt(0), dt(1))), -float(np.nextafter(dt(0), dt(1))),
             1 / 3, 0.1, float(fi.eps), None][m]
        if v is None:
            # random bit pattern (any finite/denormal value of the width)
            bits = rng.getrandbits(32 if kind == 'f4' else 64)
            return ('f4:%08x' % bits) if kind == 'f4' else ('f8:%016x' % bits)
        with np.errstate(all='ignore'):
            return fbits(dt(v), kind)
    v = rng.choice([rng.uniform(-1, 1), rng.uniform(-1e6, 1e6), rng.uniform(-1e30, 1e30), 1.5, 0.1, 1 / 3,
                    rng.gauss(0, 1) * 10 ** rng.randint(-30, 30)])
    with np.errstate(all='ignore'):
        return fbits(dt(v), kind)


def rint(rng, kind, extreme=False):
    b = {'i2': 15, 'i4': 31, 'i8': 63}[kind]
    if extreme:
        return rng.choice([0, 1, -1, 2**b - 1, -2**b, 2**b - 2, -2**b + 1, rng.randint(-2**b, 2**b - 1)])
    return rng.choice([0, 1, -1, rng.randint(-100, 100), rng.randint(-2**b, 2**b - 1)])


def gen_cols(rng, ncols, enums=None, allow_arrays=True, allow_strings=True, allow_unicode=False, used_names=None):
    cols = []
    used = set(used_names or ())
    tries = 0
    while len(cols) < ncols and tries < 50:
        tries += 1
        cn = ident(rng)
        if cn.lower() in used:
            continue
        used.add(cn.lower())
        kinds = list(NUMKINDS) + ['na']
        if allow_strings:
            kinds += ['S', 'S', 'Sa']
        if allow_unicode:
            kinds += ['U']
        if enums:
            kinds += ['enum']
        k = rng.choice(kinds)
        if k == 'na' and not allow_arrays:
            k = rng.choice(NUMKINDS)
        if k == 'Sa' and not allow_arrays:
            k = 'S'
        if k in NUMKINDS:
            cols.append({'name': cn, 'kind': k, 'width': 0, 'alen': 0})
        elif k == 'na':
            cols.append({'name': cn, 'kind': rng.choice(NUMKINDS), 'width': 0, 'alen': rng.randint(1, 4)})
        elif k == 'S':
            cols.append({'name': cn, 'kind': 'S', 'width': rng.randint(1, 12), 'alen': 0})
        elif k == 'U':
            cols.append({'name': cn, 'kind': 'U', 'width': rng.randint(1, 8), 'alen': 0})
        elif k == 'Sa':
            cols.append({'name': cn, 'kind': 'S', 'width': rng.randint(1, 8), 'alen': rng.randint(1, 3)})
        else:
            # enum columns are keyed by *column name* in the writer's enums dict
            tn = rng.choice(sorted(enums))
            if any(c.get('enum') for c in cols) and rng.random() < 0.5:
                used.discard(cn.lower())
                continue
            cols.append({'name': cn, 'kind': 'enum', 'width': max(len(l) for l in enums[tn]), 'alen': 0, 'enum': tn})
    if not cols:
        cols = [{'name': 'x', 'kind': 'i4', 'width': 0, 'alen': 0}]
    return cols


def gen_cell(rng, col, enums, extreme=False, torture=False):
    def one(in_array):
        k = col['kind']
        if k in ('i2', 'i4', 'i8'):
            return rint(rng, k, extreme)
        if k in ('f4', 'f8'):
            return rfloat(rng, k, extreme)
        if k in ('S', 'U'):
            return rstr(rng, col['width'], in_array=in_array, torture=torture)
        return rng.choice(enums[col['enum']])
    if col['alen']:
        return [one(True) for _ in range(col['alen'])]
    return one(False)


def fix_last_column(table):
    """format limit: a scalar string in the last column must not end with a backslash"""
    last = table['cols'][-1]
    if last['kind'] in ('S', 'U') and not last['alen']:
        for r in table['rows']:
            while r[-1].endswith('\\'):
                r[-1] = r[-1][:-1]


def np_dtype(table, byteorder='='):
    dt = []
    for c in table['cols']:
        k = c['kind']
        if k in NUMKINDS:
            base = byteorder + k if byteorder != '=' else k
        elif k == 'U':
            base = 'U%d' % c['width']
        else:
            base = 'S%d' % c['width']
        if c['alen']:
            dt.append((c['name'], base, (c['alen'],)))
        else:
            dt.append((c['name'], base))
    return np.dtype(dt)


def cell_value(col, cell):
    k = col['kind']

    def one(x):
        if k in ('f4', 'f8'):
            return unfbits(x)
        if k in ('S', 'enum'):
            return x.encode('ascii')
        return x
    if col['alen']:
        return [one(x) for x in cell]
    return one(cell)


def build_array(table, byteorder='='):
    dt = np_dtype(table, byteorder)
    a = np.zeros(len(table['rows']), dtype=dt)
    for ci, c in enumerate(table['cols']):
        if len(table['rows']) == 0:
            continue
        vals = [cell_value(c, r[ci]) for r in table['rows']]
        if c['kind'] in ('f4', 'f8'):
            # assign through the integer view so that NaN payloads / signs are preserved bit for bit
            w = 'u4' if c['kind'] == 'f4' else 'u8'
            raw = np.array([[int(x.split(':')[1], 16) for x in (r[ci] if c['alen'] else [r[ci]])]
                            for r in table['rows']], dtype='<' + w)
            fl = raw.view('<' + c['kind'])
            a[c['name']] = fl if c['alen'] else fl[:, 0]
        else:
            a[c['name']] = vals
    return a


def relayout_fields(a, kind, seed=0):
    """The same record array (field names in the same order, same values bit for bit) in another memory layout:
    'aligned' (C-struct alignment, padding between fields), 'view_permuted' (a multi-field view a[[names]] of a wider array
    whose fields are stored in another order: offsets are not increasing with the field order, itemsize is larger)."""
    names = list(a.dtype.names or [])
    if kind == 'packed' or not names:
        return a
    if kind in ('titled', 'longlong'):
        # 'titled': every field also carries a title (a second key in dtype.fields); 'longlong': 64-bit integer fields declared
        # with the C type long long (dtype char 'q' instead of 'l' - the same 8-byte integer under another spelling)
        def ft(n):
            t = a.dtype[n]
            base, shape = (t.subdtype if t.subdtype else (t, ()))
            if kind == 'longlong' and base.kind == 'i' and base.itemsize == 8:
                base = np.dtype(np.longlong).newbyteorder(base.byteorder)
            key = (('title %d: %s' % (names.index(n), n), n) if kind == 'titled' else n)     # (unique also for fields 't' and 'T')
            return (key, base, shape) if shape else (key, base)
        b = np.zeros(a.shape, dtype=[ft(n) for n in names])
        for n in names:
            b[n] = a[n]
        return b
    if kind == 'aligned':
        b = np.zeros(a.shape, dtype=np.dtype([(n, a.dtype[n]) for n in names], align=True))
    else:
        import random
        perm = list(names)
        random.Random(seed).shuffle(perm)
        if perm == names and len(names) > 1:
            perm = perm[::-1]
        store = [(n, a.dtype[n]) for n in perm]
        store.insert(len(store) // 2, ('pad_zz', 'u1', (3,)))
        b = np.zeros(a.shape, dtype=store)
    for n in names:
        b[n] = a[n]
    return b if kind == 'aligned' else b[names]


def writer_enums(case):
    if not case.get('enums'):
        return None
    out = {}
    for t in case['tables']:
        for c in t['cols']:
            if c['kind'] == 'enum':
                out[c['name']] = (c['enum'], list(case['enums'][c['enum']]))
    return out or None


def expected_text(col, x):
    return x


def compare_table(out, got, table, where, enums=None, clause='readback'):
    """got: numpy recarray read back (or the writer's object table). Checks names/order/dtypes/values."""
    names = [c['name'] for c in table['cols']]
    if not out.expect(got.dtype.names is not None and list(got.dtype.names) == names, clause,
                      '%s: column names/order %r != %r' % (where, getattr(got.dtype, 'names', None), names)):
        return
    if not out.expect(len(got) == len(table['rows']), clause, '%s: row count %d != %d' % (where, len(got), len(table['rows']))):
        return
    for ci, c in enumerate(table['cols']):
        dt = got.dtype[c['name']]
        base = dt.subdtype[0] if dt.subdtype else dt
        shape = dt.subdtype[1] if dt.subdtype else ()
        k = c['kind']
        if k in NUMKINDS:
            out.expect(base.kind == k[0] and base.itemsize == int(k[1]), clause,
                       '%s.%s: dtype %s, declared %s' % (where, c['name'], base, k))
        elif k == 'S':
            out.expect(base.kind == 'S' and base.itemsize == c['width'], clause,
                       '%s.%s: dtype %s, declared S%d' % (where, c['name'], base, c['width']))
        elif k == 'U':
            out.expect(base.kind == 'S' and base.itemsize >= c['width'], clause,
                       '%s.%s: dtype %s, unicode input of width %d must come back as bytes at least as wide'
                       % (where, c['name'], base, c['width']))
        else:
            out.expect(base.kind == 'S', clause, '%s.%s: enum column came back as %s' % (where, c['name'], base))
        out.expect(tuple(shape) == ((c['alen'],) if c['alen'] else ()), clause,
                   '%s.%s: array shape %s, declared %s' % (where, c['name'], shape, c['alen']))
        if tuple(shape) != ((c['alen'],) if c['alen'] else ()):
            continue
        for ri, row in enumerate(table['rows']):
            exp = row[ci] if c['alen'] else [row[ci]]
            g = np.atleast_1d(got[c['name']][ri])
            if k in ('f4', 'f8'):
                w = 'u4' if k == 'f4' else 'u8'
                if base.kind != 'f' or base.itemsize != int(k[1]):
                    continue
                gb = np.ascontiguousarray(g).astype(base.newbyteorder('<')).view('<' + w).tolist()
                for j, (gx, ex) in enumerate(zip(gb, exp)):
                    ev = unfbits(ex)
                    eb = int(ex.split(':')[1], 16)
                    if np.isnan(ev):
                        ok = bool(np.isnan(g[j]))
                    else:
                        ok = gx == eb
                    out.expect(ok, clause + '-float', '%s.%s[%d]: float not bit-identical: got %r (0x%x) expected %r (0x%x)'
                               % (where, c['name'], ri, g[j], gx, ev, eb))
            elif k in ('i2', 'i4', 'i8'):
                out.expect([int(x) for x in g.tolist()] == [int(x) for x in exp], clause + '-int',
                           '%s.%s[%d]: got %r expected %r' % (where, c['name'], ri, g.tolist(), exp))
            else:
                gs = [x.decode('ascii') if isinstance(x, bytes) else str(x) for x in g.tolist()]
                out.expect(gs == list(exp), clause + '-str', '%s.%s[%d]: got %r expected %r' % (where, c['name'], ri, gs, exp))
