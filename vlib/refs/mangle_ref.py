"""Reference model for Mangle cap / polygon / window membership and use_caps selection (C12).

Written from the definition in the property text, not from pydl:

    cap (x, cm), point p:   d = 1 - x.p
        cm >= 0 :  inside  <=>  d <= cm
        cm <  0 :  inside  <=>  d >= |cm|          (the complement)
    polygon: AND over caps k < n_used with bit k of the use-mask set (no such cap -> everything)
    window : index of the first polygon in list order that contains the point, else -1

Everything is evaluated in numpy long double (x87 80 bit, eps 1.1e-19) on the *given* binary values of
x, cm and the point coordinates (float32 caps are taken at their exact float32 values).  Because pydl
evaluates the same threshold in double (or float32) arithmetic, a verdict is only *decided* when
|d - |cm|| >= band; otherwise the status is UND and the caller must not assert it.

Statuses: IN = 1, OUT = 0, UND = -1.
"""
import numpy as np

LD = np.longdouble
IN, OUT, UND = 1, 0, -1
PI_LD = LD(4) * np.arctan(LD(1))

# ambiguity bands (see derivation in checks/c12_mangle.py ASSUMPTIONS)
BAND_F64 = 1e-9
BAND_F32 = 5e-5
# a cap's own centre is asserted (inside cm >= tol, outside cm <= -tol) down to these |cm|
CENTRE_TOL_F64 = 1e-12
CENTRE_TOL_F32 = 5e-5


def radec_to_xyz(points):
    """(n,2) RA, Dec in degrees (float64) -> (n,3) long double unit vectors."""
    p = np.asarray(points, dtype=np.float64).astype(LD)
    ra = p[:, 0] * PI_LD / LD(180)
    dec = p[:, 1] * PI_LD / LD(180)
    out = np.empty((p.shape[0], 3), dtype=LD)
    cd = np.cos(dec)
    out[:, 0] = np.cos(ra) * cd
    out[:, 1] = np.sin(ra) * cd
    out[:, 2] = np.sin(dec)
    return out


def to_ld_points(points):
    """Cartesian (n,3) or RA/Dec (n,2) float64 -> (n,3) long double."""
    p = np.asarray(points, dtype=np.float64)
    if p.ndim != 2 or p.shape[1] not in (2, 3):
        raise ValueError('points must be (n,2) or (n,3)')
    if p.shape[1] == 2:
        return radec_to_xyz(p)
    return p.astype(LD)


def cap_d(x, pts_ld):
    """d = 1 - x.p in long double; products summed explicitly (no BLAS)."""
    x = np.asarray(x).astype(LD)
    return LD(1) - (pts_ld[:, 0] * x[0] + pts_ld[:, 1] * x[1] + pts_ld[:, 2] * x[2])


def cap_status(x, cm, pts_ld, band):
    """Status array (IN/OUT/UND) of every point against a single cap, and d."""
    d = cap_d(x, pts_ld)
    c = LD(cm)
    a = abs(c)
    if c >= 0:
        inside = d <= a
    else:
        inside = d >= a
    st = np.where(inside, IN, OUT).astype(np.int8)
    st[np.abs(d - a) < LD(band)] = UND
    return st, d


def centre_status(cm, tol):
    """Status of a cap's own centre w.r.t. that cap (designated exact point)."""
    if cm >= tol:
        return IN
    if cm <= -tol:
        return OUT
    return UND


def exact_ties(x, cm, pts):
    """Points lying EXACTLY on the bounding circle of a cap: 1 - x.p == |cm| in real arithmetic on the stored doubles.

    pts: (n,3) float64 Cartesian.  A point qualifies only if, in addition, every double evaluation of x.p is exact
    whatever the summation order or fused multiply-add: at most one of the three products is non-zero and that
    product is representable (axis-aligned caps with a point component equal to 1 - |cm|, caps with a zero
    component and the point on that axis, the null cap at its axis-aligned centre ...).  Then 1 - |cm| is
    representable too and equals the computed dot product bit for bit, so the comparison is well defined in double
    and the property's "<=" (cm >= 0: the circle belongs to the cap) can be asserted.
    Rational arithmetic (fractions.Fraction) on the binary values; no tolerance.
    """
    from fractions import Fraction
    x = [float(v) for v in np.asarray(x, dtype=np.float64)]
    a = abs(float(cm))
    pts = np.asarray(pts, dtype=np.float64)
    out = np.zeros(len(pts), dtype=bool)
    cand = np.abs(1.0 - pts @ np.array(x) - a) < 1e-14
    fa = Fraction(a)
    for j in np.nonzero(cand)[0]:
        prods = [Fraction(x[i]) * Fraction(float(pts[j, i])) for i in range(3)]
        nz = [q for q in prods if q != 0]
        if len(nz) > 1:
            continue
        dot = nz[0] if nz else Fraction(0)
        if nz and Fraction(float(dot)) != dot:
            continue
        out[j] = (1 - dot) == fa
    return out


def cap_table(xs, cms, pts_ld, band, centre_tol, exact=(), ties_pts=None):
    """Per-cap statuses of every point, evaluated once: list of (status array, |d - |cm|| as float64).

    exact: iterable of (point_index, cap_index): the point is a bit-exact copy of that cap's centre.
    ties_pts: the float64 Cartesian points; if given, points exactly on the bounding circle (exact_ties) of a cap
    with cm >= 0 are decided IN ("1 - x.p <= cm"); on the circle of a complement cap (cm < 0) the property says
    OUT (the circle belongs to the cap, not to its complement) - left UND here and only reported by the check,
    because the unchanged code gives the circle to the complement as well.  Third tuple entry: the tie mask.
    """
    ex = {}
    for j, k in exact:
        ex.setdefault(k, []).append(j)
    table = []
    for k in range(len(cms)):
        st, d = cap_status(xs[k], cms[k], pts_ld, band)
        for j in ex.get(k, ()):
            st[j] = centre_status(float(cms[k]), centre_tol)
        ties = np.zeros(len(st), dtype=bool)
        if ties_pts is not None:
            ties = exact_ties(xs[k], cms[k], ties_pts)
            if float(cms[k]) >= 0:
                st[ties] = IN
        table.append((st, np.abs(d - abs(LD(cms[k]))).astype(np.float64), ties))
    return table


def combine_caps(table, use, ncaps, npts):
    """AND of the caps k < (ncaps or n) whose bit is set in ``use``; (status, nearest boundary distance)."""
    n = len(table)
    nuse = n if ncaps <= 0 else min(int(ncaps), n)
    any_out = np.zeros(npts, dtype=bool)
    any_und = np.zeros(npts, dtype=bool)
    near = np.full(npts, np.inf)
    for k in range(nuse):
        if not (int(use) >> k) & 1:
            continue
        st, dist = table[k][0], table[k][1]
        any_out |= st == OUT
        any_und |= st == UND
        near = np.minimum(near, dist)
    res = np.full(npts, IN, dtype=np.int8)
    res[any_und] = UND
    res[any_out] = OUT          # one decided OUT settles the AND whatever the undecided caps say
    return res, near


def polygon_status(xs, cms, use, ncaps, pts_ld, band, centre_tol, exact=()):
    """Status of every point against one polygon.

    xs (n,3), cms (n,), use: int bit mask, ncaps: the ``ncaps`` argument of is_in_polygon (0 = all).
    Returns (status array, near array) where near[j] is the smallest |d - |cm|| over the caps evaluated.
    """
    return combine_caps(cap_table(xs, cms, pts_ld, band, centre_tol, exact), use, ncaps, pts_ld.shape[0])


def window_allowed(poly_status):
    """poly_status: list (one per polygon, list order) of status arrays.

    Returns (first, alt): ``first[j]`` = the reference window index if decided (else the smallest
    admissible index), ``alt[j]`` = set of admissible answers when some polygon before the first
    decided IN is undecided (None when the answer is decided).
    """
    npts = len(poly_status[0]) if poly_status else 0
    first = np.full(npts, -1, dtype=np.int64)
    alt = [None] * npts
    for j in range(npts):
        allowed = []
        done = False
        for i, st in enumerate(poly_status):
            s = st[j]
            if s == OUT:
                continue
            allowed.append(i)
            if s == IN:
                done = True
                break
        if not done:
            allowed.append(-1)
        first[j] = allowed[0]
        if len(allowed) > 1:
            alt[j] = set(allowed)
    return first, alt


# ---------------------------------------------------------------------------
# set_use_caps
# ---------------------------------------------------------------------------
TOL_BAND = 1e-9      # relative band around "distance == tol" / "|cm difference| == tol" inside which nothing is asserted


def use_caps_ref(xs, cms, index_list, old_mask=0, add=False, tol=1e-10,
                 allow_doubles=False, allow_neg_doubles=False, info=None):
    """Expected use mask, and a reason (non-empty string) if the case must not be asserted.

    Selected = bits of index_list (| old mask when add).  Unless allow_doubles, walking i upwards, every
    still-selected later cap j that duplicates the still-selected cap i is removed.  j duplicates i when the
    EUCLIDEAN distance of the centres is < tol and (|cm_i - cm_j| < tol, or |cm_i + cm_j| < tol unless
    allow_neg_doubles) - the rule set_use_caps documents and the unchanged code implements as
    sum((x_i-x_j)**2) < tol**2.  Evaluated in long double on the stored binary values.  pydl's double
    evaluation of the same quantities is accurate to ~5e-16 relative (the difference of two nearby doubles is
    exact, three squares, two additions, tol**2), so a pair is ambiguous only when a quantity is within
    TOL_BAND = 1e-9 (relative) of tol: margin 1e6.
    Chains (the tolerance relation is not transitive: B doubles A, C doubles B, C does not double A): a cap
    that has been dropped as a double is no longer selected and therefore no longer serves as the reference for
    later caps - C stays.  This is what "minus later duplicates of a *selected* cap" says and what the unchanged
    code implements (its outer loop re-tests is_cap_used(use_caps, i) for every i, after earlier removals).  The
    other reading (any earlier *requested* cap knocks out) is computed only for evidence: ``info['chain']`` is
    set when the two differ, i.e. when the case distinguishes them.
    """
    xs = np.asarray(xs).astype(LD).reshape(-1, 3)
    cms = np.asarray(cms).astype(LD).reshape(-1)
    n = len(cms)
    mask = int(old_mask) if add else 0
    for i in index_list:
        mask |= 1 << int(i)
    if allow_doubles:
        return mask, ''
    t = LD(tol)
    sel = [k for k in range(n) if (mask >> k) & 1]
    if len(sel) < 2:
        return mask, ''
    X = xs[sel]
    C = cms[sel]
    diff = X[:, None, :] - X[None, :, :]
    dist = np.sqrt((diff ** 2).sum(axis=2))
    dsame = np.abs(C[:, None] - C[None, :])
    dtwin = np.abs(C[:, None] + C[None, :])
    lo, hi = t * (1 - LD(TOL_BAND)), t * (1 + LD(TOL_BAND))
    iu = np.triu_indices(len(sel), 1)
    near_x = (dist > lo) & (dist < hi)
    near_c = (dist < hi) & (((dsame > lo) & (dsame < hi)) | ((dtwin > lo) & (dtwin < hi)))
    if bool((near_x | near_c)[iu].any()):
        return mask, 'a centre distance or cm difference is within 1e-9 (relative) of tol'
    dup = (dist < t) & ((dsame < t) | ((dtwin < t) & (not allow_neg_doubles)))
    # reading 1 (the code's): walk upwards, only still-selected caps knock out later ones
    alive = [True] * len(sel)
    for a in range(len(sel)):
        if not alive[a]:
            continue
        for b in range(a + 1, len(sel)):
            if alive[b] and dup[a, b]:
                alive[b] = False
    # reading 2: any earlier requested cap knocks out a later duplicate
    alive2 = [not bool(dup[:b, b].any()) for b in range(len(sel))]
    out = mask
    for b, k in enumerate(sel):
        if not alive[b]:
            out &= ~(1 << k)
    if info is not None:
        info['chain'] = alive != alive2
    return out, ''
