"""Independent reference models of IDL SMOOTH / MEDIAN / UNIQ / REBIN (property C14).

Written from the IDL definitions quoted in DESIGN.md "### C14" and in properties.jsonl, not
from pydl's arithmetic:

SMOOTH(x, w)      w even -> w+1; h = w//2; R[i] = mean(x[i-h .. i+h]) for h <= i <= n-1-h, R[i] = x[i] on
                  the h points at either end; with /EDGE_TRUNCATE every point is smoothed and an index that
                  falls outside 0..n-1 is replaced by the nearest edge index.
MEDIAN(x)         middle element of the sorted values; even count: the upper of the two middle elements, or
                  their mean with /EVEN.  MEDIAN(x, w) (w odd): median of the w (1-D) or w x w (2-D)
                  neighbourhood wherever it fits completely inside the array, input value elsewhere.
UNIQ(x[, idx])    subscript of the last element of every run of equal neighbours of x (of x[idx] mapped
                  back through idx when idx is supplied).
REBIN(x, d)       axis by axis, in axis order.  Expansion by the integer factor F=d/d0: output pixel i sits
                  at p = i*d0/d (a rational number: everything below is integer arithmetic on i*d0 and d);
                  j = floor(p); value x[j] + (p-j)(x[j+1]-x[j]) while j < d0-1, x[d0-1] from there on (no
                  extrapolation).  Compression by F=d0/d: mean of x[F*i .. F*i+F-1].  /SAMPLE: x[j] resp.
                  x[F*i].  Unchanged axis: copy.

Only Python ints / floats / fractions and plain numpy element access are used.
"""
import math
import numpy as np


# --------------------------------------------------------------------------- smooth
def odd_width(w):
    return w + 1 if w % 2 == 0 else w


def window_mean(win):
    """IEEE mean of a window: NaN if it holds a NaN or infinities of both signs, +-inf if it holds an
    infinity of one sign, else the correctly rounded sum divided by the count."""
    if any(v != v for v in win):
        return float('nan')
    pos = any(v == float('inf') for v in win)
    neg = any(v == float('-inf') for v in win)
    if pos and neg:
        return float('nan')
    if pos or neg:
        return float('inf') if pos else float('-inf')
    return math.fsum(win) / len(win)


def smooth_ref(x, w, edge_truncate=False):
    """x: list of Python floats.  Returns (value, kind, scale) lists.

    kind: 'same' (must be bit-identical to the input), 'interior', 'edge' (edge-replicated window).
    value: window mean, correctly rounded sum (math.fsum) divided by the width.
    scale: mean of |x| over the window - the magnitude rounding errors are relative to.
    """
    n = len(x)
    W = odd_width(w)
    h = W // 2
    val, kind, scale = list(x), ['same'] * n, [abs(v) for v in x]
    if W < 3:
        return val, kind, scale
    for i in range(n):
        if h <= i <= n - 1 - h:
            win = x[i - h:i + h + 1]
            kind[i] = 'interior'
        elif edge_truncate:
            win = [x[min(max(j, 0), n - 1)] for j in range(i - h, i + h + 1)]
            kind[i] = 'edge'
        else:
            continue
        assert len(win) == W
        val[i] = window_mean(win)
        scale[i] = math.fsum(abs(v) for v in win if v == v and abs(v) != float('inf')) / W
    return val, kind, scale


# --------------------------------------------------------------------------- median
def median_ref(values, even=False):
    """values: flat list.  Returns (median, how, (lower_middle, upper_middle))."""
    s = sorted(values)
    n = len(s)
    if n % 2 == 1:
        return s[n // 2], 'odd', (s[n // 2], s[n // 2])
    lo, hi = s[n // 2 - 1], s[n // 2]
    if even:
        return (lo + hi) / 2.0, 'even-mean', (lo, hi)
    return hi, 'even-upper', (lo, hi)


def running_median_1d(x, w):
    """x: list, w odd.  Returns (values, interior_flags)."""
    n = len(x)
    h = w // 2
    out = list(x)
    inner = [False] * n
    for i in range(h, n - h):
        out[i] = sorted(x[i - h:i + h + 1])[h]
        inner[i] = True
    return out, inner


def running_median_2d(rows, w):
    """rows: list of equal-length lists, w odd.  Returns (values, interior_flags) as nested lists."""
    nr = len(rows)
    nc = len(rows[0])
    h = w // 2
    out = [list(r) for r in rows]
    inner = [[False] * nc for _ in range(nr)]
    for i in range(h, nr - h):
        for j in range(h, nc - h):
            nb = []
            for a in range(i - h, i + h + 1):
                nb.extend(rows[a][j - h:j + h + 1])
            out[i][j] = sorted(nb)[(w * w) // 2]
            inner[i][j] = True
    return out, inner


# --------------------------------------------------------------------------- uniq
def uniq_ref(x, index=None):
    """Subscripts (into x) of the last element of every run of equal values of x taken in the order
    given by index (identity when None).  A constant array is one run; no special case."""
    order = list(range(len(x))) if index is None else list(index)
    q = [x[j] for j in order]
    n = len(q)
    ends = [i for i in range(n) if i == n - 1 or q[i] != q[i + 1]]
    return [order[i] for i in ends]


# --------------------------------------------------------------------------- rebin
def axis_plan(d0, d, sample):
    """Per output index of one axis: ('pick', j) | ('lerp', j, rem, d) [value x[j]+(rem/d)(x[j+1]-x[j])]
    | ('mean', j0, j1) [mean of x[j0:j1]].  Exact integer arithmetic only."""
    plan = []
    if d == d0:
        return [('pick', i) for i in range(d)]
    if d > d0:
        assert d % d0 == 0
        for i in range(d):
            j, rem = divmod(i * d0, d)
            if sample or i == 0:
                plan.append(('pick', j))                 # p = 0 is exact in any arithmetic
            elif j >= d0 - 1 and (j > d0 - 1 or rem > 0):
                plan.append(('pick', d0 - 1))            # beyond the last sample: clamp
            elif j >= d0 - 1:
                plan.append(('lerp', d0 - 2, d, d) if d0 >= 2 else ('pick', 0))   # exactly on the last sample
            else:
                plan.append(('lerp', j, rem, d))
        return plan
    assert d0 % d == 0
    f = d0 // d
    for i in range(d):
        plan.append(('pick', f * i) if sample else ('mean', f * i, f * i + f))
    return plan


def plan_stats(plan, d0):
    """(n_lerp_fractional, n_exactly_on_a_sample_for_i>0, n_block_means)"""
    frac = sum(1 for op in plan if op[0] == 'lerp' and 0 < op[2] < op[3])
    onpix = sum(1 for i, op in enumerate(plan) if i > 0 and op[0] == 'lerp' and op[2] in (0, op[3]))
    return frac, onpix, sum(1 for op in plan if op[0] == 'mean')


def _apply_float(a, axis, plan):
    a = np.moveaxis(a, axis, 0)
    out = np.empty((len(plan),) + a.shape[1:], dtype=a.dtype)
    for i, op in enumerate(plan):
        if op[0] == 'pick':
            out[i] = a[op[1]]
        elif op[0] == 'lerp':
            _, j, rem, den = op
            t = a.dtype.type(rem) / a.dtype.type(den)
            out[i] = a[j] + t * (a[j + 1] - a[j])
        else:
            _, j0, j1 = op
            acc = a[j0].copy()
            for j in range(j0 + 1, j1):
                acc = acc + a[j]
            out[i] = acc / a.dtype.type(j1 - j0)
    return np.moveaxis(out, 0, axis)


def rebin_float_ref(x, d, sample):
    """x: float ndarray (any float dtype).  Returns a long-double array of shape d: the IDL value with
    no intermediate rounding to the input dtype."""
    a = np.asarray(x, dtype=np.longdouble)
    for k in range(a.ndim):
        a = _apply_float(a, k, axis_plan(a.shape[k], d[k], sample))
    return a


def rebin_pick_ref(x, d):
    """/SAMPLE result: pure element selection, exact for every dtype."""
    a = np.asarray(x)
    for k in range(a.ndim):
        idx = [op[1] for op in axis_plan(a.shape[k], d[k], True)]
        a = np.take(a, idx, axis=k)
    return a


def _cdiv(num, den):
    return -((-num) // den)


def rebin_int_bounds(x, d):
    """Integer dtypes without /SAMPLE.  The property does not fix how a fractional value becomes an
    integer, so after each axis an element may be any integer within 1 of the exact rational value of
    that axis' formula applied to the integers it was computed from.  Intervals [lo, hi] are propagated
    through the axes (all formulas are monotone in their inputs: weights are non-negative).
    Copies (unchanged axis, clamped tail beyond the last sample) are exact."""
    lo = np.asarray(x).astype(object)
    hi = lo.copy()
    for k in range(lo.ndim):
        plan = axis_plan(lo.shape[k], d[k], False)
        lo = np.moveaxis(lo, k, 0)
        hi = np.moveaxis(hi, k, 0)
        nlo = np.empty((len(plan),) + lo.shape[1:], dtype=object)
        nhi = np.empty_like(nlo)
        for i, op in enumerate(plan):
            if op[0] == 'pick':
                nlo[i], nhi[i] = lo[op[1]], hi[op[1]]
            elif op[0] == 'lerp':
                _, j, rem, den = op
                a = lo[j] * (den - rem) + lo[j + 1] * rem
                b = hi[j] * (den - rem) + hi[j + 1] * rem
                nlo[i] = _cdiv(a, den) - 1
                nhi[i] = b // den + 1
            else:
                _, j0, j1 = op
                a = lo[j0:j1].sum(axis=0)
                b = hi[j0:j1].sum(axis=0)
                nlo[i] = _cdiv(a, j1 - j0) - 1
                nhi[i] = b // (j1 - j0) + 1
        lo = np.moveaxis(nlo, 0, k)
        hi = np.moveaxis(nhi, 0, k)
    return lo, hi


def float_fragile_pairs(max_d0=40, max_factor=70):
    """(d0, factor) pairs for which some common floating-point way of computing floor(i*d0/d) differs
    from the exact integer floor for at least one i (generator aid, not an oracle)."""
    out = []
    for d0 in range(1, max_d0):
        for fac in range(2, max_factor):
            d = d0 * fac
            i = np.arange(d)
            e = (i * d0) // d
            x = i.astype(float)
            forms = (np.floor((d0 / d) * x), np.floor(x / fac), np.floor(x * (1.0 / fac)),
                     np.floor(x * d0 * (1.0 / d)))
            if any((f != e).any() for f in forms):
                out.append((d0, fac))
    return out


def rebin_float_claims(x, d):
    """Interpolating / averaging REBIN of a float array that holds +-inf or NaN: what the rule
    'edge-clamped linear interpolation / block average, axis by axis' fixes, and nothing more.

    Returns (value, known).  known[...] is True where the output is determined:
      * copies: unchanged axis, every output position at or beyond the last input pixel
        (the clamped tail repeats the last pixel whatever its value, +-inf and NaN included);
      * positions whose two neighbouring input pixels are both determined and finite: the interpolated value
        (a non-finite pixel elsewhere on the axis has no influence);
      * blocks of determined values: all finite -> their mean; no NaN and infinities of one sign only -> that
        infinity.
    Positions between (or exactly on) a finite and a non-finite pixel, blocks with NaN or both infinities and
    everything computed from an undetermined element carry no claim (0*inf in x0 + t*(x1-x0) is not fixed by
    the property)."""
    a = np.asarray(x, dtype=np.longdouble)
    known = np.ones(a.shape, dtype=bool)
    inf = np.longdouble(np.inf)
    nan = np.longdouble(np.nan)
    with np.errstate(invalid='ignore', over='ignore'):
        for k in range(a.ndim):
            plan = axis_plan(a.shape[k], d[k], False)
            a = np.moveaxis(a, k, 0)
            known = np.moveaxis(known, k, 0)
            out = np.empty((len(plan),) + a.shape[1:], dtype=a.dtype)
            ok = np.zeros(out.shape, dtype=bool)
            for i, op in enumerate(plan):
                if op[0] == 'lerp' and op[2] == op[3]:
                    op = ('pick', op[1] + 1)                 # exactly on the last input pixel: start of the clamped tail
                if i == 0 and len(plan) > a.shape[0] >= 2:
                    op = ('lerp', 0, 0, len(plan))           # output pixel 0 of an enlarged axis: on a pixel, not in the tail
                if op[0] == 'pick':
                    out[i] = a[op[1]]
                    ok[i] = known[op[1]]
                elif op[0] == 'lerp':
                    _, j, rem, den = op
                    fin = known[j] & known[j + 1] & np.isfinite(a[j]) & np.isfinite(a[j + 1])
                    t = np.longdouble(rem) / np.longdouble(den)
                    out[i] = np.where(fin, a[j] + t * (a[j + 1] - a[j]), nan)
                    ok[i] = fin
                else:
                    _, j0, j1 = op
                    blk = a[j0:j1]
                    kn = known[j0:j1].all(axis=0)
                    fin = kn & np.isfinite(blk).all(axis=0)
                    nonan = kn & ~np.isnan(blk).any(axis=0)
                    pos = nonan & (blk == inf).any(axis=0) & ~(blk == -inf).any(axis=0)
                    neg = nonan & (blk == -inf).any(axis=0) & ~(blk == inf).any(axis=0)
                    mean = np.where(np.isfinite(blk), blk, 0).sum(axis=0) / np.longdouble(j1 - j0)
                    out[i] = np.where(fin, mean, np.where(pos, inf, np.where(neg, -inf, nan)))
                    ok[i] = fin | pos | neg
            a = np.moveaxis(out, 0, k)
            known = np.moveaxis(ok, 0, k)
    return a, known


# --------------------------------------------------------------------------- long arrays (vectorised references)
def _axis_tables(d0, d, sample):
    """int64 index arithmetic for one axis: (kind, j, j_next, rem) with kind 'copy' | 'lerp' | 'mean'"""
    i = np.arange(d, dtype=np.int64)
    if d == d0:
        return 'copy', i, i, np.zeros(d, dtype=np.int64)
    if d > d0:
        assert d % d0 == 0
        num = i * np.int64(d0)                       # < 2**63 for every size used here
        j = num // np.int64(d)
        rem = num - j * np.int64(d)
        if sample:
            return 'copy', j, j, np.zeros(d, dtype=np.int64)
        tail = j >= d0 - 1                           # at or beyond the last input pixel: repeat it
        jn = np.where(tail, j, j + 1)
        rem = np.where(tail, 0, rem)
        return 'lerp', j, jn, rem
    assert d0 % d == 0
    f = d0 // d
    if sample:
        return 'copy', i * f, i * f, np.zeros(d, dtype=np.int64)
    return 'mean', i * f, i * f + f, np.zeros(d, dtype=np.int64)


def rebin_float_ref_fast(x, d, sample):
    """same definition as rebin_float_ref, numpy-vectorised along the axis (for long axes)"""
    a = np.asarray(x, dtype=np.longdouble)
    for k in range(a.ndim):
        kind, j, jn, rem = _axis_tables(a.shape[k], d[k], sample)
        a = np.moveaxis(a, k, 0)
        if kind == 'copy':
            out = a[j]
        elif kind == 'lerp':
            t = (rem.astype(np.longdouble) / np.longdouble(d[k])).reshape((-1,) + (1,) * (a.ndim - 1))
            out = a[j] + t * (a[jn] - a[j])
        else:
            f = int(jn[0] - j[0])
            out = a.reshape((len(j), f) + a.shape[1:]).sum(axis=1) / np.longdouble(f)
        a = np.moveaxis(out, 0, k)
    return a


def rebin_int_bounds_fast(x, d):
    """same rule as rebin_int_bounds (within 1, inclusive, of the exact rational value per axis), in int64"""
    lo = np.asarray(x).astype(np.int64)
    hi = lo.copy()
    for k in range(lo.ndim):
        kind, j, jn, rem = _axis_tables(lo.shape[k], d[k], False)
        lo = np.moveaxis(lo, k, 0)
        hi = np.moveaxis(hi, k, 0)
        if kind == 'copy':
            nlo, nhi = lo[j], hi[j]
        elif kind == 'lerp':
            den = np.int64(d[k])
            r = rem.reshape((-1,) + (1,) * (lo.ndim - 1))
            a = lo[j] * (den - r) + lo[jn] * r
            b = hi[j] * (den - r) + hi[jn] * r
            ii = np.arange(len(j), dtype=np.int64).reshape(r.shape)
            # copies: output pixel 0 and everything strictly beyond the last input pixel
            exact = (ii == 0) | (ii * np.int64(lo.shape[0]) > np.int64(lo.shape[0] - 1) * den)
            nlo = np.where(exact, lo[j], -((-a) // den) - 1)
            nhi = np.where(exact, hi[j], b // den + 1)
        else:
            f = int(jn[0] - j[0])
            a = lo.reshape((len(j), f) + lo.shape[1:]).sum(axis=1)
            b = hi.reshape((len(j), f) + hi.shape[1:]).sum(axis=1)
            nlo = -((-a) // f) - 1
            nhi = b // f + 1
        lo = np.moveaxis(nlo, 0, k)
        hi = np.moveaxis(nhi, 0, k)
    return lo, hi


def smooth_ref_fast(x, w, edge_truncate=False):
    """(value, touched) for a long float array: long-double window sums over a strided window view"""
    from numpy.lib.stride_tricks import sliding_window_view
    a = np.asarray(x, dtype=np.longdouble)
    n = a.size
    W = odd_width(w)
    h = W // 2
    val = a.copy()
    touched = np.zeros(n, dtype=bool)
    if W < 3:
        return val, touched
    if edge_truncate:
        p = np.concatenate([np.full(h, a[0]), a, np.full(h, a[-1])])
        val = sliding_window_view(p, W).sum(axis=1) / np.longdouble(W)
        touched[:] = True
    elif n >= W:
        val[h:n - h] = sliding_window_view(a, W).sum(axis=1) / np.longdouble(W)
        touched[h:n - h] = True
    return val, touched


def running_median_1d_fast(x, w, chunk=4096):
    from numpy.lib.stride_tricks import sliding_window_view
    a = np.asarray(x, dtype=float)
    n = a.size
    h = w // 2
    out = a.copy()
    inner = np.zeros(n, dtype=bool)
    if n >= w:
        v = sliding_window_view(a, w)
        for c in range(0, v.shape[0], chunk):
            out[h + c:h + c + min(chunk, v.shape[0] - c)] = np.sort(v[c:c + chunk], axis=1)[:, h]
        inner[h:n - h] = True
    return out, inner
