"""Independent spherical-geometry reference in long double (x87 80 bit, eps 1.1e-19).

Nothing here imports pydl.  Every function takes float64 (or long double) arrays and
works in ``numpy.longdouble``; the *float64 values actually passed to the code under
test* are the inputs, so the reference sees exactly the same points.

* ``to_rad``        float64 angle in radians / degrees / hours  ->  long double radians
* ``unitvec``       (lon, lat) in long double radians          ->  (n,3) long double unit vectors
* ``sep_vec``       angular separation of unit vectors: chord formula 2*asin(|a-b|/2), switched to
                    pi - 2*asin(|a+b|/2) beyond 90 deg (well conditioned at both ends);
                    ``sep_vec_atan`` = atan2(|a x b|, a.b) is a second, differently built witness
* ``sep``           the same from angles
* ``offset_point``  point at a known separation and position angle from a start point
                    (construction in long double, result rounded to float64 degrees)
* ``munu_model``    the SDSS great-circle frame written as an explicit orthonormal triad:
                    n (ascending node, RA=node on the equator), q (90 deg further along the circle),
                    p = n x q (its pole);  position(mu, nu) = cos nu (cos t n + sin t q) + sin nu p, t = mu-node
"""
import numpy as np

LD = np.longdouble
PI = np.arctan(LD(1)) * 4
D2R = PI / 180
EPS_LD = float(np.finfo(LD).eps)


def have_long_double():
    """True iff numpy.longdouble really is wider than float64 (x87 or quad)."""
    return EPS_LD < 1e-18


def to_rad(x, unit):
    """unit: 'rad', 'deg' or 'hour' -> long double radians (exact widening, one rounding in LD)."""
    x = np.asarray(x, dtype=np.float64).astype(LD)
    if unit == 'rad':
        return x
    if unit == 'deg':
        return x * D2R
    if unit == 'hour':
        return x * 15 * D2R
    raise ValueError(unit)


def unitvec(lon, lat):
    lon = np.asarray(lon, dtype=LD)
    lat = np.asarray(lat, dtype=LD)
    cl = np.cos(lat)
    return np.stack([cl * np.cos(lon), cl * np.sin(lon), np.sin(lat)], -1)


def sep_vec(a, b):
    d = a - b
    s = a + b
    ch = np.sqrt((d * d).sum(-1))
    ch2 = np.sqrt((s * s).sum(-1))
    one = LD(1)
    near = 2 * np.arcsin(np.minimum(ch / 2, one))
    far = PI - 2 * np.arcsin(np.minimum(ch2 / 2, one))
    return np.where(ch <= ch2, near, far)


def sep_vec_atan(a, b):
    c = np.cross(a, b)
    return np.arctan2(np.sqrt((c * c).sum(-1)), (a * b).sum(-1))


def sep(lon1, lat1, lon2, lat2):
    """Angular separation (long double radians) of points given in long double radians."""
    return sep_vec(unitvec(lon1, lat1), unitvec(lon2, lat2))


def sep_deg(ra1, dec1, ra2, dec2):
    """float64 degrees in, long double radians out."""
    return sep(to_rad(ra1, 'deg'), to_rad(dec1, 'deg'), to_rad(ra2, 'deg'), to_rad(dec2, 'deg'))


def vec_to_lonlat(v):
    """long double unit vectors -> (lon in [0, 2pi), lat) long double radians.

    lat from atan2(z, hypot(x, y)): well conditioned at the poles (unlike asin / acos)."""
    lon = np.arctan2(v[..., 1], v[..., 0])
    lon = np.where(lon < 0, lon + 2 * PI, lon)
    lat = np.arctan2(v[..., 2], np.sqrt(v[..., 0] ** 2 + v[..., 1] ** 2))
    return lon, lat


def offset_vec(ra_deg, dec_deg, sep_rad, pa_rad):
    """Unit vectors (long double) at separation ``sep_rad`` from (ra, dec) towards position
    angle ``pa_rad`` (from north through east).  At the exact poles 'east' is taken at the given RA."""
    r = to_rad(ra_deg, 'deg')
    d = to_rad(dec_deg, 'deg')
    s = np.asarray(sep_rad, dtype=np.float64).astype(LD)
    t = np.asarray(pa_rad, dtype=np.float64).astype(LD)
    a = unitvec(r, d)
    east = np.stack([-np.sin(r), np.cos(r), 0 * r], -1)
    north = np.stack([-np.sin(d) * np.cos(r), -np.sin(d) * np.sin(r), np.cos(d)], -1)
    dirn = np.sin(t)[..., None] * east + np.cos(t)[..., None] * north
    return np.cos(s)[..., None] * a + np.sin(s)[..., None] * dirn


def offset_point(ra_deg, dec_deg, sep_rad, pa_rad):
    """float64 (ra2, dec2) in degrees, RA in [0, 360), of the point constructed by ``offset_vec``."""
    b = offset_vec(ra_deg, dec_deg, sep_rad, pa_rad)
    lon, lat = vec_to_lonlat(b)
    ra2 = (lon / D2R).astype(np.float64)
    ra2 = np.where(ra2 >= 360.0, ra2 - 360.0, ra2)
    dec2 = np.clip((lat / D2R).astype(np.float64), -90.0, 90.0)
    return ra2, dec2


def sdss_incl_deg(stripe):
    """Inclination of an SDSS stripe as the survey documentation defines it (independent of pydl):
    eta = (stripe - 10) * 2.5 - 32.5 deg, southern stripes (> 46) are the same great circles entered
    from the other side (eta - 180); inclination = eta + 32.5 (Dec of the survey centre)."""
    eta = (stripe - 10) * 2.5 - 32.5
    if stripe > 46:
        eta -= 180.0
    return eta + 32.5


def munu_triad(incl_deg, node_deg=95.0):
    i = to_rad(incl_deg, 'deg')
    n0 = to_rad(node_deg, 'deg')
    zero = LD(0)
    n = np.array([np.cos(n0), np.sin(n0), zero], dtype=LD)
    e = np.array([-np.sin(n0), np.cos(n0), zero], dtype=LD)
    z = np.array([zero, zero, LD(1)], dtype=LD)
    q = np.cos(i) * e + np.sin(i) * z
    p = np.cos(i) * z - np.sin(i) * e        # = n x q
    return n, q, p


def munu_model(mu_deg, nu_deg, incl_deg, node_deg=95.0):
    """(mu, nu) float64 degrees -> ICRS unit vectors (long double) for the great circle of
    inclination ``incl_deg`` ascending through RA ``node_deg``."""
    n, q, p = munu_triad(incl_deg, node_deg)
    t = to_rad(mu_deg, 'deg') - to_rad(node_deg, 'deg')
    v = to_rad(nu_deg, 'deg')
    cv = np.cos(v)
    return (cv * np.cos(t))[..., None] * n + (cv * np.sin(t))[..., None] * q + np.sin(v)[..., None] * p


def munu_model_inv(ra_deg, dec_deg, incl_deg, node_deg=95.0):
    """ICRS float64 degrees -> unit vectors in the (mu - node, nu) frame (long double):
    components along (n, q, p)."""
    n, q, p = munu_triad(incl_deg, node_deg)
    x = unitvec(to_rad(ra_deg, 'deg'), to_rad(dec_deg, 'deg'))
    return np.stack([(x * n).sum(-1), (x * q).sum(-1), (x * p).sum(-1)], -1)
