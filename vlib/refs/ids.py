"""Reference packer for SDSS objID / specObjID in Python big ints (from the docstring tables)."""
# field: (lo, hi) inclusive documented range
OBJ_RANGE = {'skyversion': (0, 15), 'rerun': (0, 2**11 - 1), 'run': (0, 2**16 - 1), 'camcol': (1, 6),
             'firstfield': (0, 1), 'field': (0, 2**12 - 1), 'objnum': (0, 2**16 - 1)}
# mjd is the *true* MJD (stored minus 50000 in 14 bits)
SPEC_RANGE = {'plate': (0, 2**14 - 1), 'fiber': (0, 2**12 - 1), 'mjd': (50000, 50000 + 2**14 - 1),
              'run2d': (0, 2**14 - 1), 'line': (0, 2**10 - 1)}


def pack_objid(skyversion, rerun, run, camcol, firstfield, field, objnum):
    # bits: sky 59-62, rerun 48-58, run 32-47, camcol 29-31, first 28, field 16-27, obj 0-15
    return (skyversion * 2**59 + rerun * 2**48 + run * 2**32 + camcol * 2**29 +
            firstfield * 2**28 + field * 2**16 + objnum)


def pack_specobjid(plate, fiber, mjd, run2d, line):
    # bits: plate 50-63, fiber 38-49, mjd-50000 24-37, run2d 10-23, line|index 0-9
    return plate * 2**50 + fiber * 2**38 + (mjd - 50000) * 2**24 + run2d * 2**10 + line
