"""Reference model for C13 (trace sets): textbook bases, dense weighted least squares, trace-set evaluation.

Independent of pydl: bases come from numpy.polynomial (Legendre/Chebyshev Vandermonde matrices built by the
three-term recurrences) and plain powers; fits are solved with numpy.linalg.lstsq (SVD) on the sqrt-weighted
design matrix, never through normal equations; everything is evaluated in float64 whatever the input dtype.
"""
from fractions import Fraction
import numpy as np
from numpy.polynomial import legendre as _L, chebyshev as _C

CANON = {'legendre': 'legendre', 'flegendre': 'legendre', 'chebyshev': 'chebyshev', 'fchebyshev': 'chebyshev',
         'chebyshev_split': 'chebyshev_split', 'fchebyshev_split': 'chebyshev_split', 'poly': 'poly', 'fpoly': 'poly'}
EPS64 = float(np.finfo(np.float64).eps)
EPS32 = float(np.finfo(np.float32).eps)


def basis(name, x, m):
    """(m, n) float64 array of the first m basis functions of family `name` at abscissae x.

    legendre: P_0..P_{m-1};  chebyshev: T_0..T_{m-1};  poly: x^0..x^{m-1};
    chebyshev_split: [H(x), 1, T_1, ..., T_{m-2}] with H(x) = 1 for x >= 0 else 0 (docstring of fchebyshev_split).
    """
    name = CANON[name]
    x = np.atleast_1d(np.asarray(x, dtype=np.float64)).ravel()
    if name == 'legendre':
        return _L.legvander(x, m - 1).T.copy()
    if name == 'chebyshev':
        return _C.chebvander(x, m - 1).T.copy()
    if name == 'poly':
        out = np.ones((m, x.size))
        for k in range(1, m):
            out[k] = x ** k
        return out
    out = np.empty((m, x.size))
    out[0] = (x >= 0).astype(np.float64)
    out[1:] = _C.chebvander(x, m - 2).T
    return out


_ABS_CACHE = {}


def abs_coeff_sum(name, k):
    """Sum of |monomial coefficients| of the k-th basis function: bound of |p|(|x|<=1) used to scale the
    rounding error of a Horner / power-form evaluation (Higham, Accuracy and Stability, sec. 5.1)."""
    name = CANON[name]
    key = (name, k)
    if key not in _ABS_CACHE:
        if name == 'legendre':
            c = _L.leg2poly([0] * k + [1])
        elif name in ('chebyshev',):
            c = _C.cheb2poly([0] * k + [1])
        elif name == 'chebyshev_split':
            c = [1.0] if k < 2 else _C.cheb2poly([0] * (k - 1) + [1])
        else:
            c = [1.0]
        _ABS_CACHE[key] = float(np.abs(c).sum())
    return _ABS_CACHE[key]


def basis_tol(name, k, eps, power_form=True):
    """Absolute tolerance for row k of a basis evaluated on [-1, 1] in arithmetic of unit roundoff eps.

    Power-form (Horner) evaluation of a degree-d polynomial has error <= ~2d*eps*sum|a_i|; a three-term
    recurrence has error growth ~d^2*eps.  100x the larger bound (float64), 100x the recurrence bound alone when
    power_form is False (used for float32 results, where the power-form bound would be useless and the values
    are in fact the rounded float64 ones)."""
    d = max(k, 1)
    b = float(d * d)
    if power_form:
        b = max(b, 2.0 * d * abs_coeff_sum(name, k))
    return 100.0 * eps * b


LOWPREC_C = 4.0


def basis_tol_lowprec(k, eps):
    """Absolute tolerance for row k (degree d) of a basis returned in a precision below float64 (unit roundoff eps),
    compared with the textbook value at the *stored* abscissa.

    A degree-d basis function on [-1, 1] has |f'| <= d^2, so an evaluation whose intermediate quantities carry
    eps-sized relative perturbations (a three-term recurrence or repeated multiplication carried out in that
    precision) is off by at most ~d^2*eps; rounding the final value costs eps/4.  Tolerance LOWPREC_C * eps * max(d^2, 1).
    Measured on the unchanged code (float32 and float16, 80 000 abscissae, orders 0..13): <= 0.3 eps for the
    Legendre/Chebyshev rows (evaluated in double, rounded once), <= 0.17 d eps for powers, <= 0.16 d^2 eps for the
    split basis (float32 recurrence) - i.e. >= 25x below the tolerance; a power-form expansion carried out in the low
    precision is off by 80 (d=7) ... 5000 (d=12) eps."""
    d = max(k, 1)
    return LOWPREC_C * eps * float(d * d)


def xnorm(x, xmin, xmax, jump=None):
    """Normalised abscissa of a trace set: x (plus the fraction of the BOSS jump already passed) mapped affinely
    so that [xmin, xmax] -> [-1, 1]."""
    x = np.asarray(x, dtype=np.float64)
    xmin = float(xmin)
    xmax = float(xmax)
    if jump is not None:
        lo, hi, val = (float(v) for v in jump)
        frac = np.clip((x - lo) / (hi - lo), 0.0, 1.0)
        x = x + frac * val
    mid = 0.5 * (xmin + xmax)
    return 2.0 * (x - mid) / (xmax - xmin)


def evaluate(func, coeff, x, xmin, xmax, jump=None):
    """y(x) = sum_k coeff[k] * basis_k(xnorm(x)) for one trace; also returns sum_k |coeff[k] basis_k| (error scale)."""
    coeff = np.asarray(coeff, dtype=np.float64)
    B = basis(func, xnorm(x, xmin, xmax, jump), coeff.size)
    return coeff @ B, np.abs(coeff) @ np.abs(B)


def wlsq(B, y, w, free=None, fixed_values=None):
    """Weighted least squares with some coefficients held fixed.

    B: (m, n) basis rows, y: (n,), w: (n,) non-negative weights (inverse variances).
    free: boolean (m,), True = fitted.  fixed_values: (m,), used where ~free.
    Returns dict(coeff, cond, smax, bnorm, rank, A, b) where A = sqrt(w) * B_free^T, b = sqrt(w) * (y - fixed part),
    bnorm = |sqrt(w) y| + |sqrt(w) fixed part| (error scale of the right-hand side).
    """
    B = np.asarray(B, dtype=np.float64)
    y = np.asarray(y, dtype=np.float64)
    w = np.asarray(w, dtype=np.float64)
    m = B.shape[0]
    free = np.ones(m, dtype=bool) if free is None else np.asarray(free, dtype=bool)
    coeff = np.zeros(m) if fixed_values is None else np.array(fixed_values, dtype=np.float64)
    s = np.sqrt(np.where(w > 0, w, 0.0))
    yfix = coeff[~free] @ B[~free] if (~free).any() else np.zeros_like(y)
    ysub = y - yfix
    A = (B[free] * s).T
    b = ysub * s
    # magnitude of the data entering the right-hand side before the fixed part cancels against it
    dnorm = float(np.linalg.norm(y * s) + np.linalg.norm(yfix * s))
    if free.any():
        c, _, rank, sv = np.linalg.lstsq(A, b, rcond=None)
        coeff[free] = c
        smax = float(sv[0])
        smin = float(sv[-1])
        cond = smax / smin if smin > 0 else np.inf
    else:
        rank, smax, cond = 0, 0.0, 1.0
    return {'coeff': coeff, 'cond': cond, 'smax': smax, 'bnorm': dnorm, 'rank': int(rank),
            'A': A, 'b': b, 'ysub': ysub, 'free': free}


def grid_columns(xmin, xmax, eps):
    """Number of unit steps xmin, xmin+1, ... <= xmax, decided in exact rational arithmetic.

    Returns (n, decided).  Undecided when xmax-xmin is within 64*eps*max(1,|xmin|,|xmax|) of an integer without
    being exactly one (a correctly rounded subtraction returns an exactly representable difference exactly)."""
    d = Fraction(float(xmax)) - Fraction(float(xmin))
    if d.denominator == 1:
        return int(d) + 1, True
    near = round(d)
    band = 64.0 * eps * max(1.0, abs(float(xmin)), abs(float(xmax)))
    if abs(float(d - near)) < band:
        return int(near) + 1, False
    return int(d // 1) + 1, True
