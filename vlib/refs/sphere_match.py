"""Independent reference for C04 / C05: long-double great-circle separations, brute-force
pair lists with an ambiguity band, union-find friends-of-friends, spherical helpers used by
the geometry-guided generators.  Nothing here imports pydl.

Separation formula: chord of the two unit vectors, sep = 2*asin(|a-b|/2) (|a+b| branch past
90 deg) evaluated in x87 long double (eps 1.1e-19).  Absolute error of a separation is a few
1e-19 rad (~1e-17 deg), i.e. >= 5 orders below the ambiguity band used by the checks.
A second formula (Vincenty atan2(|a x b|, a.b)) cross-checks the first on every call made by the checks
(checked_sep_matrix): a disagreement above 1e-14 deg raises ReferenceSelfCheckError, which the harness reports as a
harness error (INCONCLUSIVE), never as a violation.
"""
import numpy as np

LD = np.longdouble
PI = LD(4) * np.arctan(LD(1))
D2R = PI / LD(180)
R2D = LD(180) / PI

# ambiguity band around a threshold length L (degrees): relative 1e-9, floor 1e-11 deg.
# Derivation of the floor: gcirc subtracts two RAs converted to radians in double; each
# conversion carries <= 0.5 ulp(2 pi) = 4.4e-16 rad, so a separation carries up to
# ~9e-16 rad = 5e-14 deg of absolute error whatever its size.  1e-11 deg is 200 x that.
BAND_REL = 1e-9
BAND_ABS = 1e-11


# single-precision band: coordinates delivered as float32 / int16 / uint16 arrays are converted to radians in float32
# (np.deg2rad keeps the precision of its argument): 0.5 ulp(2 pi) = 2.4e-7 rad = 1.4e-5 deg per RA, so a separation
# carries up to ~3e-5 deg of absolute error (measured 1.4e-6 deg at RA 10).  3e-3 deg is 100 x that.
BAND32_REL = 1e-5
BAND32_ABS = 3e-3
PREC = {'double': (BAND_REL, BAND_ABS), 'single': (BAND32_REL, BAND32_ABS)}


# Near the antipode gcirc's haversine 2*asin(x) is ill-conditioned: d(sep)/dx = 2/cos(sep/2), x carries ~2 ulp, i.e.
# 2.5e-14/cos(sep/2) deg; it saturates where x rounds to 1 (true separation within 1.7e-6 deg of 180).  100 x that,
# capped at 2e-4 deg.  Irrelevant (< 1e-11) below 150 deg.
ANTIPODE_COEF = 2.5e-12
ANTIPODE_CAP = 2e-4


def antipode_term(sep):
    s = np.minimum(np.asarray(sep, dtype='d'), 180.0)
    c = np.cos(np.radians(0.5 * s))
    return np.minimum(ANTIPODE_COEF / np.maximum(c, 1e-300), ANTIPODE_CAP)


def band(length, prec='double'):
    rel, ab = PREC[prec]
    return max(rel * float(length), ab, float(antipode_term(length)))


def tolerance(sep, prec='double'):
    """array version of band(): admissible |reported - true| for separations `sep` (degrees)"""
    rel, ab = PREC[prec]
    sep = np.asarray(sep, dtype='d')
    return np.maximum(np.maximum(rel * sep, ab), antipode_term(sep))


def unit(ra, dec):
    r = np.asarray(ra, dtype=LD) * D2R
    d = np.asarray(dec, dtype=LD) * D2R
    cd = np.cos(d)
    return np.stack([cd * np.cos(r), cd * np.sin(r), np.sin(d)], axis=-1)


BLOCK_ELEMS = 200000      # rows are processed in blocks so that temporaries stay below ~10 MB each


def _blockwise(f, ra1, dec1, ra2, dec2):
    n1, n2 = np.size(ra1), np.size(ra2)
    if n1 * n2 <= BLOCK_ELEMS or n1 <= 1:
        return f(ra1, dec1, ra2, dec2)
    ra1 = np.asarray(ra1)
    dec1 = np.asarray(dec1)
    rows = max(1, BLOCK_ELEMS // max(n2, 1))
    out = np.empty((n1, n2), dtype=LD)
    for lo in range(0, n1, rows):
        out[lo:lo + rows] = f(ra1[lo:lo + rows], dec1[lo:lo + rows], ra2, dec2)
    return out


def sep_matrix(ra1, dec1, ra2, dec2):
    """(n1, n2) long-double matrix of great-circle separations in degrees (chord formula), evaluated block-wise."""
    return _blockwise(_sep_block, ra1, dec1, ra2, dec2)


def sep_matrix_vincenty(ra1, dec1, ra2, dec2):
    return _blockwise(_vincenty_block, ra1, dec1, ra2, dec2)


def _sep_block(ra1, dec1, ra2, dec2):
    a = unit(ra1, dec1)[:, None, :]
    b = unit(ra2, dec2)[None, :, :]
    dm = a - b
    dp = a + b
    cm = np.sqrt((dm * dm).sum(-1))
    cp = np.sqrt((dp * dp).sum(-1))
    half = LD(0.5)
    near = 2 * np.arcsin(np.minimum(cm * half, LD(1)))
    far = PI - 2 * np.arcsin(np.minimum(cp * half, LD(1)))
    return np.where(cm <= cp, near, far) * R2D


def _vincenty_block(ra1, dec1, ra2, dec2):
    a = unit(ra1, dec1)[:, None, :]
    b = unit(ra2, dec2)[None, :, :]
    cr = np.cross(a, b)
    return np.arctan2(np.sqrt((cr * cr).sum(-1)), (a * b).sum(-1)) * R2D


class ReferenceSelfCheckError(RuntimeError):
    """the two independent long-double formulas disagree: the reference is not trustworthy (never a verdict on pydl)"""


SELFCHECK_TOL = 1e-14     # degrees; the two formulas agree to ~1e-17 deg with x87 long double


def checked_sep_matrix(ra1, dec1, ra2, dec2):
    """sep_matrix, cross-checked against the Vincenty form on every call (raises ReferenceSelfCheckError)."""
    if not (np.finfo(LD).eps < 1e-18):
        raise ReferenceSelfCheckError('numpy long double is not extended precision on this platform')
    S = sep_matrix(ra1, dec1, ra2, dec2)
    V = sep_matrix_vincenty(ra1, dec1, ra2, dec2)
    if S.size and not (float(np.abs(S - V).max()) <= SELFCHECK_TOL):
        raise ReferenceSelfCheckError('chord and Vincenty separations differ by %g deg' % float(np.abs(S - V).max()))
    return S


def classify(S, length, prec='double'):
    """(sure, maybe): boolean matrices, S < length-band and S <= length+band."""
    w = LD(band(length, prec))
    L = LD(length)
    return S < L - w, S <= L + w


# ------------------------------------------------------------------ union-find / FoF
def components(adj):
    """labels numbered 0,1,2,... in order of first member; adj symmetric boolean (n, n)."""
    n = adj.shape[0]
    par = list(range(n))

    def find(a):
        while par[a] != a:
            par[a] = par[par[a]]
            a = par[a]
        return a
    ii, jj = np.nonzero(np.triu(adj, 1))
    for i, j in zip(ii.tolist(), jj.tolist()):
        a, b = find(i), find(j)
        if a != b:
            if a < b:
                par[b] = a
            else:
                par[a] = b
    lab = {}
    out = [0] * n
    for i in range(n):
        r = find(i)
        if r not in lab:
            lab[r] = len(lab)
        out[i] = lab[r]
    return out


def tie_is_exact(length):
    """True if a separation of exactly `length` degrees is reproduced bit for bit, in double precision, by the three
    standard formulas alike (haversine, Vincenty, chord) for a pair anchored on the equator: then "separation == linking
    length" is not a matter of rounding and the property text decides it (a tie does not exceed the length: it links)."""
    x = np.deg2rad(float(length))
    if not (0.0 < float(length) <= 90.0):
        return False
    with np.errstate(all='ignore'):
        h = 2.0 * np.arcsin(np.sqrt(np.sin(x / 2) * np.sin(x / 2)))
        v = np.arctan2(np.hypot(0.0, np.sin(x)), np.cos(x))
        c = 2.0 * np.arcsin(0.5 * np.sqrt((np.cos(x) - 1.0) ** 2 + np.sin(x) ** 2))
    return bool(h == x and v == x and c == x)


def exact_links(ra, dec, length):
    """boolean (n, n): pairs whose separation is known exactly (not through floating point) and does not exceed `length`:
    (A) bit-identical positions (separation 0, any length >= 0, in particular length 0);
    (B) exact ties of anchored pairs - same RA, one Dec 0.0 and the other +-length; or both Dec 0.0, RAs 0.0 and length -
        provided tie_is_exact(length)."""
    ra = np.asarray(ra, dtype='d')
    dec = np.asarray(dec, dtype='d')
    L = float(length)
    same_ra = ra[:, None] == ra[None, :]
    E = same_ra & (dec[:, None] == dec[None, :]) & (L >= 0.0)
    if tie_is_exact(L):
        z = dec == 0.0
        onl = np.abs(dec) == L
        E |= same_ra & ((z[:, None] & onl[None, :]) | (onl[:, None] & z[None, :]))
        r0, rl = ra == 0.0, ra == L
        E |= (z[:, None] & z[None, :]) & ((r0[:, None] & rl[None, :]) | (rl[:, None] & r0[None, :]))
    np.fill_diagonal(E, False)
    return E


def fof(ra, dec, length, prec='double', S=None, exact=None):
    """(labels_sure, labels_maybe, n_band_pairs, S): both readings of the ambiguity band.  `exact`: pairs known to link
    whatever the band says (exact_links); fof.decided_by_exact = number of band pairs decided that way."""
    if S is None:
        S = checked_sep_matrix(ra, dec, ra, dec)
    sure, maybe = classify(S, length, prec)
    # spheregroup links with sep <= L: 'sure' = S < L - band, 'maybe' = S <= L + band
    fof.decided_by_exact = 0
    if exact is not None:
        fof.decided_by_exact = int(np.triu(exact & ~sure, 1).sum())
        sure = sure | exact
        maybe = maybe | exact
    l1 = components(sure)
    nband = int((np.triu(maybe & ~sure, 1)).sum())
    l2 = components(maybe) if nband else l1
    return l1, l2, nband, S


# ------------------------------------------------------------------ spherical helpers (generators)
def destination(ra, dec, bearing_deg, dist_deg):
    """Point at great-circle distance dist from (ra, dec) along bearing (0 = north, 90 = east);
    long double, returned as Python floats (ra in [0, 360))."""
    a = LD(ra) * D2R
    d = LD(dec) * D2R
    th = LD(bearing_deg) * D2R
    s = LD(dist_deg) * D2R
    sd2 = np.sin(d) * np.cos(s) + np.cos(d) * np.sin(s) * np.cos(th)
    sd2 = min(max(sd2, LD(-1)), LD(1))
    d2 = np.arcsin(sd2)
    da = np.arctan2(np.sin(th) * np.sin(s) * np.cos(d), np.cos(s) - np.sin(d) * sd2)
    ra2 = float((a + da) * R2D) % 360.0
    if ra2 >= 360.0:
        ra2 = 0.0
    return ra2, float(d2 * R2D)


def ew_width(length, dec):
    """RA difference (deg) at which two points of the same declination are `length` apart:
    2*asin(sin(length/2)/cos(dec)); None if no such difference exists (>= 180 deg)."""
    s = np.sin(LD(length) * D2R / 2) / np.cos(LD(dec) * D2R)
    if not (s < 1):
        return None
    return float(2 * np.arcsin(s) * R2D)


def wrap360(x):
    x = float(x) % 360.0
    if x >= 360.0 or x < 0.0:
        x = 0.0
    return x


# ------------------------------------------------------------------ learned chunk geometry (generators / counters)
class Geo:
    """Plain-Python copy of the geometry of a live ``chunks`` instance (the instance is built by the
    code under test; nothing here re-derives it).  RA values in ``raBounds`` are in the rotated frame
    x = fmod(ra + raOffset, 360)."""

    def __init__(self, chunk, ra, dec):
        self.nDec = int(chunk.nDec)
        self.decBounds = [float(x) for x in chunk.decBounds]
        self.raBounds = [[float(x) for x in b] for b in chunk.raBounds]
        self.nRa = [int(x) for x in chunk.nRa]
        self.raOffset = float(chunk.raOffset)
        self.minSize = float(chunk.minSize)
        x = np.fmod(np.asarray(ra, dtype='d') + self.raOffset, 360.0)
        self.xMin, self.xMax = float(x.min()), float(x.max())
        self.decMin, self.decMax = float(np.min(dec)), float(np.max(dec))

    def key(self):
        return (self.nDec, tuple(self.decBounds), tuple(tuple(b) for b in self.raBounds), self.raOffset)

    def unrot(self, x):
        return wrap360(x - self.raOffset)

    def rot(self, ra):
        return float(np.fmod(ra + self.raOffset, 360.0))

    def slice_of(self, dec):
        for i in range(self.nDec):
            if self.decBounds[i] <= dec < self.decBounds[i + 1]:
                return i
        return None

    def cos_min(self, i):
        a, b = self.decBounds[i], self.decBounds[i + 1]
        return float(np.cos(np.radians(max(abs(a), abs(b)))))

    def poleward(self, i):
        """(boundary nearer a pole, the other boundary) of slice i."""
        a, b = self.decBounds[i], self.decBounds[i + 1]
        return (b, a) if abs(b) > abs(a) else (a, b)

    def all_around(self, i):
        return self.raBounds[i][0] == 0.0 and self.raBounds[i][-1] == 360.0

    def width(self, i):
        return (self.raBounds[i][-1] - self.raBounds[i][0]) / self.nRa[i]

    def in_box(self, ra, dec):
        """would adding (ra, dec) to the generating list leave min/max of Dec and rotated RA unchanged?"""
        x = self.rot(ra)
        return self.decMin <= dec <= self.decMax and self.xMin <= x <= self.xMax

    def populated_slices(self):
        return [i for i in range(self.nDec)
                if self.decBounds[i + 1] > self.decMin and self.decBounds[i] < self.decMax]


# ------------------------------------------------------------------ argument flavours (dtype / layout family)
# name -> how a list of whole-degree values is handed to the function under test.  'single' marks the flavours whose
# degree->radian conversion happens in float32 inside numpy (float32, int16, uint16).
FLAVOURS = {
    'f8': 'double', 'i8': 'double', 'i4': 'double', '>f8': 'double', '>i4': 'double', 'u4': 'double',
    'strided': 'double', 'reversed': 'double', 'readonly': 'double', 'strided_i8': 'double',
    'f4': 'single', '>f4': 'single', 'i2': 'single', 'u2': 'single', 'strided_f4': 'single',
}
UNSIGNED = ('u4', 'u2')


def make_arg(values, flavour):
    """(argument array, buffer owner) for a list of numbers; the owner's bytes are compared before/after the call."""
    v = np.array(values, dtype='f8')
    if flavour.startswith('strided'):
        dt = {'strided': 'f8', 'strided_i8': 'i8', 'strided_f4': 'f4'}[flavour]
        big = np.full(2 * v.size + 1, 777, dtype=dt)
        big[1::2] = v.astype(dt)
        return big[1::2], big
    if flavour == 'reversed':
        base = v[::-1].copy()
        return base[::-1], base
    if flavour == 'readonly':
        a = v.copy()
        a.setflags(write=False)
        return a, a
    a = v.astype(flavour)
    return a, a
