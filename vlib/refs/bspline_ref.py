"""Independent B-spline references: textbook Cox-de Boor recursion, dense design matrix, dense weighted LS."""
import numpy as np


def basis_matrix(t, k, x, extrapolate=False):
    """All n = len(t)-k B-splines of order k (degree k-1) on knots t at points x (float64).

    Textbook recursion with 0/0 := 0; order-1 pieces are half-open [t_j, t_j+1) except that the last
    non-degenerate piece of the breakpoint range [t[k-1], t[n]] is closed on the right.
    With extrapolate=True the polynomial pieces of the first/last non-degenerate interval of the breakpoint range are
    continued outside it (what a least-squares fit does with data that lie a rounding error beyond the end knots).
    """
    t = np.asarray(t, dtype=np.float64)
    x = np.asarray(x, dtype=np.float64)
    m = len(t) - 1
    n = len(t) - k
    B = np.zeros((x.size, m))
    for j in range(m):
        if t[j] < t[j + 1]:
            B[:, j] = (x >= t[j]) & (x < t[j + 1])
    # close the right end of the breakpoint range
    right = t[n]
    jj = [j for j in range(m) if t[j] < t[j + 1] and t[j + 1] == right]
    if jj:
        B[x == right, jj[-1]] = 1.0
        for j in range(m):
            if j != jj[-1]:
                B[x == right, j] = 0.0
    if extrapolate:
        inner = [j for j in range(k - 1, n) if t[j] < t[j + 1]]
        if inner:
            lo, hi = inner[0], inner[-1]
            B[x < t[k - 1], :] = 0.0
            B[x < t[k - 1], lo] = 1.0
            B[x > t[n], :] = 0.0
            B[x > t[n], hi] = 1.0
    for kk in range(2, k + 1):
        Bn = np.zeros((x.size, m - kk + 1))
        for j in range(m - kk + 1):
            d1 = t[j + kk - 1] - t[j]
            d2 = t[j + kk] - t[j + 1]
            if d1 > 0:
                Bn[:, j] += (x - t[j]) / d1 * B[:, j]
            if d2 > 0:
                Bn[:, j] += (t[j + kk] - x) / d2 * B[:, j + 1]
        B = Bn
    return B[:, :n]


def spline_value(t, k, c, x):
    return basis_matrix(t, k, x) @ np.asarray(c, dtype=np.float64)


def wls(A, y, w):
    """argmin sum w (y - A c)^2 by dense lstsq on sqrt(w)-scaled rows; returns c."""
    s = np.sqrt(np.asarray(w, dtype=np.float64))
    c, res, rank, sv = np.linalg.lstsq(A * s[:, None], np.asarray(y, dtype=np.float64) * s, rcond=None)
    return c, rank, sv
