"""Independent reference pieces for C19 (air/vacuum wavelengths, SDSS filter response, trace-set evaluation).

Nothing here imports pydl.  Everything is textbook:
* Ciddor (1996) refractive index of standard air as printed in the IDL astrolib header
  (n - 1 = 5.792105e-2/(238.0185 - s^2) + 1.67917e-3/(57.362 - s^2), s = 1e4/lambda_vac[A]),
  evaluated in long double, with the air->vacuum direction solved to convergence by fixed point;
* the SDSS filter tables parsed with plain str.split (second column = point-source response);
* trace sets evaluated with numpy.polynomial (legval / chebval / polyval);
* filter_thru model: weights |d log10(lambda)/d pixel| * response(lambda), with the derivative
  taken from an ordinary cubic least-squares fit (numpy.polynomial) to the first differences.
"""
import os
import numpy as np

LD = np.longdouble
BANDS = 'ugriz'
EDGE = 2000.0


def _n_air(vac):
    s2 = (LD(1.0e4) / vac) ** 2
    return LD(1) + LD('5.792105e-2') / (LD('238.0185') - s2) + LD('1.67917e-3') / (LD('57.362') - s2)


def vactoair_ref(vac):
    """vacuum -> air [Angstrom], long double; < 2000 A unchanged."""
    v = np.asarray(vac, dtype=LD)
    with np.errstate(all='ignore'):
        a = v / _n_air(v)
    return np.where(v < EDGE, v, a)


def airtovac_ref(air, iters=40):
    """air -> vacuum [Angstrom], long double fixed point to convergence; < 2000 A unchanged."""
    a = np.asarray(air, dtype=LD)
    v = a.copy()
    with np.errstate(all='ignore'):
        for _ in range(iters):
            v = a * _n_air(v)
    return np.where(a < EDGE, a, v)


def load_filters(repo):
    """[(lam, respt)] for u,g,r,i,z from the tables of the tree under test (plain text parse)."""
    out = []
    d = os.path.join(repo, 'pydl', 'pydlutils', 'data', 'filters')
    for b in BANDS:
        lam, res = [], []
        with open(os.path.join(d, 'sdss_jun2001_%s_atm.dat' % b)) as f:
            for line in f:
                s = line.strip()
                if not s or s.startswith('#'):
                    continue
                p = s.split()
                lam.append(float(p[0]))
                res.append(float(p[1]))
        lam = np.array(lam)
        res = np.array(res)
        if not (np.diff(lam) > 0).all():
            raise RuntimeError('filter table %s not sorted' % b)
        out.append((lam, res))
    return out


def response(filters, wave):
    """response of the five bands at wavelengths ``wave`` (any shape) -> array (5,)+shape; 0 outside the table."""
    w = np.asarray(wave, dtype=float)
    return np.array([np.interp(w.ravel(), lam, res, left=res[0], right=res[-1]).reshape(w.shape)
                     for lam, res in filters])


def support_edges(filters):
    """per band: wavelengths at which the tabulated response changes between zero and non-zero."""
    out = []
    for lam, res in filters:
        nz = res > 0
        e = []
        for k in range(len(lam)):
            left = nz[k - 1] if k > 0 else False
            right = nz[k + 1] if k + 1 < len(lam) else False
            if not nz[k] and (left or right):
                e.append(lam[k])
        out.append(np.array(e))
    return out


def traceset_eval(func, coeff, xmin, xmax, nx):
    """y(pixel) of a trace set without jump: coeff (nTrace, ncoeff) on x normalised to [-1, 1]."""
    coeff = np.asarray(coeff, dtype=float)
    x = np.arange(nx, dtype=float) + xmin
    xn = 2.0 * (x - 0.5 * (xmin + xmax)) / (xmax - xmin)
    P = np.polynomial
    ev = {'legendre': P.legendre.legval, 'chebyshev': P.chebyshev.chebval, 'poly': P.polynomial.polyval}[func]
    return np.array([ev(xn, c) for c in coeff])


def dilate(b):
    """1-d boolean dilation by one pixel each side."""
    d = b.copy()
    d[1:] |= b[:-1]
    d[:-1] |= b[1:]
    return d


def filter_thru_model(filters, flux, wave):
    """Response-weighted mean per trace and band for a *smooth* wavelength image (already in the
    medium the response is evaluated in).  Returns (res (nT,5), sumw (nT,5))."""
    flux = np.asarray(flux, dtype=float)
    wave = np.asarray(wave, dtype=float)
    nT, nx = flux.shape
    lw = np.log10(wave.astype(LD))
    R = response(filters, wave)                     # (5, nT, nx)
    x = np.arange(nx, dtype=float)
    xs = 2.0 * x / (nx - 1.0) - 1.0
    res = np.zeros((nT, 5))
    sw = np.zeros((nT, 5))
    for t in range(nT):
        d = np.diff(lw[t]).astype(float)
        c = np.polynomial.polynomial.polyfit(xs[:-1], d, 3)
        ld = np.abs(np.polynomial.polynomial.polyval(xs, c))
        for b in range(5):
            w = ld * R[b, t]
            s = w.sum()
            sw[t, b] = s
            res[t, b] = (flux[t] * w).sum() / s if s > 0 else 0.0
    return res, sw
