"""Independent reference models for C17 (which pixels do rejection / interpolation / sky masking touch).

Everything here is written element by element from the property text (and, for the semantics the text leaves to the
IDL original, from the IDL documentation of djs_reject / djs_maskinterp / skymask); nothing is imported from pydl.
Residual-vs-limit decisions are taken in long double with a relative ambiguity band; elements inside the band are
reported as *undecided* and must be excluded from the verdict by the caller.
"""
import numpy as np

LD = np.longdouble
BAND = 1e-9          # relative half-width of the ambiguity band around a rejection limit


# ---------------------------------------------------------------------------
# djs_reject
# ---------------------------------------------------------------------------
def _side(r, thr, sign):
    """Decide r*sign > thr*sign element-wise; returns (definitely_true, undecided)."""
    r = np.asarray(r, dtype=LD)
    thr = np.broadcast_to(np.asarray(thr, dtype=LD), r.shape)
    scale = np.maximum(np.abs(r), np.abs(thr))
    und = np.abs(r - thr) <= LD(BAND) * scale
    yes = (sign * (r - thr) > 0) & ~und
    return yes, und


def reject_ref(data, model, inmask=None, outmask=None, sigma=None, invvar=None, lower=None, upper=None,
               maxdev=None, grow=0, sticky=False):
    """Reference for one djs_reject call on float64 arrays of any dimension (grow: 1-D only).

    Returns dict with boolean arrays (True = rejected):
      must      points the property says are rejected
      und       points on which the property text / floating point does not decide (caller must skip them)
      n_thr     number of points rejected by a residual limit (before grow)
      n_grown   number of points rejected only because they are neighbours of such a point
      n_near    number of undecided residual comparisons
    """
    data = np.asarray(data, dtype=np.float64)
    model = np.asarray(model, dtype=np.float64)
    diff = data.astype(LD) - model.astype(LD)          # exact difference of two doubles (64-bit mantissa) or within 2^-64
    thr = np.zeros(data.shape, dtype=bool)             # residual beyond a limit: decided yes
    und = np.zeros(data.shape, dtype=bool)             # residual comparison undecided
    if sigma is not None:
        s = np.broadcast_to(np.asarray(sigma, dtype=LD), data.shape)
        if lower is not None:
            y, u = _side(diff, -LD(lower) * s, -1)
            thr |= y
            und |= u
        if upper is not None:
            y, u = _side(diff, LD(upper) * s, +1)
            thr |= y
            und |= u
    elif invvar is not None:
        iv = np.asarray(invvar, dtype=LD)
        r = diff * np.sqrt(iv)
        if lower is not None:
            y, u = _side(r, -LD(lower), -1)
            thr |= y
            und |= u & (iv != 0)                        # invvar == 0: never rejected, whatever the residual
        if upper is not None:
            y, u = _side(r, LD(upper), +1)
            thr |= y
            und |= u & (iv != 0)
        thr &= (iv != 0)
    if maxdev is not None:
        y, u = _side(np.abs(diff), LD(maxdev), +1)
        thr |= y
        und |= u
    und &= ~thr                                         # rejected by another limit anyway
    excluded = np.zeros(data.shape, dtype=bool)        # excluded by inmask / sticky previous outmask
    if inmask is not None:
        excluded |= ~(np.asarray(inmask) != 0)
    if sticky and outmask is not None:
        excluded |= ~(np.asarray(outmask) != 0)
    n_near = int((und & ~excluded).sum())
    must = excluded | thr
    und = und & ~excluded
    n_thr = int((thr & ~excluded).sum())
    n_grown = 0
    n_amb_nb = 0
    if grow > 0:
        if data.ndim != 1:
            raise ValueError('reference grow is 1-D only')
        n = data.size
        # Neighbours are grown around the points rejected *in this call* by a residual limit (the semantics of the
        # IDL original: badness is zeroed on points excluded by inmask / the sticky outmask before the grow step).
        # Growing around excluded points as well would make a sticky mask spread by `grow` pixels per iteration.
        seeds = thr & ~excluded
        # points whose being a seed is not decided in floating point
        maybe = und
        near_seed = np.zeros(n, dtype=bool)
        near_maybe = np.zeros(n, dtype=bool)
        for i in range(n):
            lo, hi = max(0, i - grow), min(n - 1, i + grow)
            if seeds[lo:hi + 1].any():
                near_seed[i] = True
            if maybe[lo:hi + 1].any():
                near_maybe[i] = True
        grown = near_seed & ~must
        n_grown = int(grown.sum())
        must = must | near_seed
        amb = near_maybe & ~must
        n_amb_nb = int((amb & ~und).sum())
        und = (und | amb) & ~must
    return {'must': must, 'und': und, 'n_thr': n_thr, 'n_grown': n_grown, 'n_near': n_near,
            'n_excluded': int(excluded.sum()), 'n_ambiguous_neighbours': n_amb_nb,
            'excluded': excluded, 'thr': thr & ~excluded}


# ---------------------------------------------------------------------------
# djs_maskinterp
# ---------------------------------------------------------------------------
def interp_line(y, bad, x=None):
    """Linear interpolation over the bad samples of one line.

    Returns (expected, scale): expected values (good samples copied bit for bit) and, per sample, the magnitude
    of the values entering its interpolation (for the tolerance).  x, if given, must be distinct along the line.
    """
    n = len(y)
    y = [float(v) for v in y]
    good = [i for i in range(n) if not bad[i]]
    exp = list(y)
    scale = [0.0] * n
    if len(good) == 0 or len(good) == n:
        return exp, scale
    if len(good) == 1:
        return [y[good[0]]] * n, scale
    pos = list(range(n)) if x is None else [float(v) for v in x]
    for i in range(n):
        if not bad[i]:
            continue
        # nearest good neighbour on each side *in position*
        left = right = None
        for g in good:
            if pos[g] < pos[i] and (left is None or pos[g] > pos[left]):
                left = g
            if pos[g] > pos[i] and (right is None or pos[g] < pos[right]):
                right = g
        if left is None:
            exp[i] = y[right]
            scale[i] = abs(y[right])
        elif right is None:
            exp[i] = y[left]
            scale[i] = abs(y[left])
        else:
            t = (LD(pos[i]) - LD(pos[left])) / (LD(pos[right]) - LD(pos[left]))
            exp[i] = float(LD(y[left]) + (LD(y[right]) - LD(y[left])) * t)
            scale[i] = max(abs(y[left]), abs(y[right]))
    return exp, scale


def maskinterp_ref(y, mask, x=None, npaxis=0):
    """Apply interp_line along numpy axis ``npaxis`` of an n-D array; returns (expected, scale, bad)."""
    y = np.asarray(y, dtype=np.float64)
    bad = np.asarray(mask) != 0
    exp = np.array(y, copy=True)
    scale = np.zeros(y.shape)
    ym = np.moveaxis(y, npaxis, -1)
    bm = np.moveaxis(bad, npaxis, -1)
    em = np.moveaxis(exp, npaxis, -1)
    sm = np.moveaxis(scale, npaxis, -1)
    xm = None if x is None else np.moveaxis(np.asarray(x, dtype=np.float64), npaxis, -1)
    for idx in np.ndindex(ym.shape[:-1]):
        e, s = interp_line(ym[idx].tolist(), bm[idx].tolist(), None if xm is None else xm[idx].tolist())
        em[idx] = e
        sm[idx] = s
    return exp, scale, bad


# ---------------------------------------------------------------------------
# reflecting running median
# ---------------------------------------------------------------------------
def _refl(i, n):
    """index into an array of length n extended by symmetric reflection (d c b a | a b c d | d c b a)."""
    if i < 0:
        i = -i - 1
    if i >= n:
        i = 2 * n - 1 - i
    if not 0 <= i < n:
        raise ValueError('more than one reflection needed')
    return i


def median_reflect_ref(a, width):
    a = np.asarray(a)
    h = width // 2
    out = np.empty_like(a)
    if a.ndim == 1:
        n = a.size
        for i in range(n):
            w = sorted(a[_refl(j, n)] for j in range(i - h, i + h + 1))
            out[i] = w[len(w) // 2]
    elif a.ndim == 2:
        n0, n1 = a.shape
        for i in range(n0):
            rows = [_refl(j, n0) for j in range(i - h, i + h + 1)]
            for k in range(n1):
                cols = [_refl(j, n1) for j in range(k - h, k + h + 1)]
                w = sorted(a[r, c] for r in rows for c in cols)
                out[i, k] = w[len(w) // 2]
    else:
        raise ValueError('1-D or 2-D only')
    return out


# ---------------------------------------------------------------------------
# skymask
# ---------------------------------------------------------------------------
def skymask_ref(ivar, mask_ints, flagbits, ngrow):
    """ivar: 2-D float array; mask_ints: nested lists of Python ints (two's complement meaning for negatives).

    Returns (expected ivar, flagged, dilated)."""
    ivar = np.asarray(ivar, dtype=np.float64)
    nr, npx = ivar.shape
    F = 0
    for b in flagbits:
        F |= 1 << b
    flagged = np.zeros((nr, npx), dtype=bool)
    for r in range(nr):
        for c in range(npx):
            flagged[r, c] = (int(mask_ints[r][c]) & F) != 0      # Python ints: infinite two's complement
    dil = np.zeros((nr, npx), dtype=bool)
    for r in range(nr):
        for c in range(npx):
            lo, hi = max(0, c - ngrow), min(npx - 1, c + ngrow)
            dil[r, c] = flagged[r, lo:hi + 1].any()
    exp = np.where(dil, 0.0, ivar)
    return exp, flagged, dil
