"""Independent reference models for C15 (least-squares and factorisation solvers).

Nothing in here shares an algorithm with the code under test:

* weighted least squares   row-scaled system, re-orthogonalised Gram-Schmidt QR in long double
                           (pydl: normal equations + SVD pseudo-inverse in double)
* covariance               R^-1 R^-T from that QR            (pydl: V diag(1/w) V^T)
* correlation / covariance explicit centring and sums in long double (pydl: numpy.corrcoef / numpy.cov)
* HMF                      closed-form normal-equation residuals and objective written with einsum
                           (pydl: scalar loops + numpy.linalg.solve)
"""
import numpy as np

LD = np.longdouble
EPS = float(np.finfo(np.float64).eps)
EPS32 = float(np.finfo(np.float32).eps)


# ---------------------------------------------------------------------------
# weighted least squares
# ---------------------------------------------------------------------------
def _backsolve(R, B):
    """Solve R X = B for upper-triangular R (long double)."""
    m = R.shape[0]
    X = np.zeros(B.shape, dtype=LD)
    for k in range(m - 1, -1, -1):
        X[k] = (B[k] - R[k, k + 1:] @ X[k + 1:]) / R[k, k]
    return X


def wls(A, b, sqw):
    """Weighted least squares min sum_i sqw_i^2 (A x - b)_i^2 in long double.

    Returns dict(x, yfit, chi2, dof, covar, smax, smin) with float64 arrays;
    ``smax``/``smin`` are the extreme singular values of diag(sqw) A.
    """
    A = np.asarray(A).astype(LD)
    b = np.asarray(b).astype(LD)
    s = np.asarray(sqw).astype(LD)
    if A.ndim == 1:
        A = A[:, None]
    n, m = A.shape
    M = A * s[:, None]
    y = b * s
    Q = np.zeros((n, m), dtype=LD)
    R = np.zeros((m, m), dtype=LD)
    for k in range(m):
        v = M[:, k].copy()
        for _ in range(2):                      # classical GS twice == orthogonal to working precision
            c = Q[:, :k].T @ v
            R[:k, k] += c
            v = v - Q[:, :k] @ c
        R[k, k] = np.sqrt(v @ v)
        Q[:, k] = v / R[k, k]
    x = _backsolve(R, Q.T @ y)
    Rinv = _backsolve(R, np.eye(m, dtype=LD))
    covar = Rinv @ Rinv.T
    r = M @ x - y
    sv = np.linalg.svd(M.astype(np.float64), compute_uv=False)
    return {'x': x.astype(np.float64), 'yfit': (A @ x).astype(np.float64), 'chi2': float(r @ r),
            'dof': int((np.asarray(sqw) > 0).sum()) - m, 'covar': covar.astype(np.float64),
            'smax': float(sv[0]), 'smin': float(sv[-1]),
            'bnorm': float(np.sqrt(y @ y)), 'rhsnorm': float(np.sqrt(((M.T @ y) ** 2).sum()))}


# ---------------------------------------------------------------------------
# correlation / covariance matrix of the columns of x
# ---------------------------------------------------------------------------
def colmatrix(x, covariance):
    x = np.asarray(x).astype(LD)
    n = x.shape[0]
    xc = x - x.sum(0) / n
    c = (xc.T @ xc) / (n - 1)
    if not covariance:
        d = np.sqrt(np.diag(c))
        c = c / np.outer(d, d)
    return c.astype(np.float64)


# ---------------------------------------------------------------------------
# HMF
# ---------------------------------------------------------------------------
def hmf_chi2(s, w, a, g):
    r = s - a @ g
    return float(np.sum(w * r * r))


def hmf_penalty(g, eps):
    if eps is None or not eps > 0:
        return 0.0
    d = g[:, 1:] - g[:, :-1]
    return float(eps * np.sum(d * d))


def hmf_objective_eval_error(s, w, a, g, eps):
    """First-order bound on the rounding error of *evaluating* chi^2 (+ penalty) of given factors in float64.

    Each residual r = s - sum_k a_k g_k carries an absolute error <= (K+2) u (|a||g| + |s|); squaring and weighting
    gives sum w (2 |r| dr + dr^2).  At signal-to-noise S this is ~ u S chi^2 - the reason a fixed relative tolerance on
    chi^2 is wrong for high S/N data - while a formula that subtracts quantities of size sum w s^2 errs by u S^2 chi^2.
    """
    K = g.shape[0]
    r = s - a @ g
    dr = (K + 2) * EPS * (np.abs(a) @ np.abs(g) + np.abs(s))
    err = float(np.sum(w * (2 * np.abs(r) * dr + dr * dr)))
    if eps is not None and eps > 0:
        d = g[:, 1:] - g[:, :-1]
        dd = 2 * EPS * (np.abs(g[:, 1:]) + np.abs(g[:, :-1]))
        err += float(eps * np.sum(2 * np.abs(d) * dd + dd * dd))
    return err


def hmf_solver_excess(w, fixed, solved, which, eps=None):
    """How far above its minimum the objective may end up because the K x K sub-problems are solved in floating point.

    A backward stable solve of H x = f leaves |dx| <= c u cond(H) |x|, i.e. an excess dx^T H dx <= c^2 u^2 cond(H)^2 lmax(H) |x|^2
    per sub-problem (c^2 taken as K^2).  Negligible next to chi^2 for noisy data, but it is the floor when the fit is (nearly)
    exact - as many spectra as components, K + 1 pixels, very high S/N - and the sub-problems are ill-conditioned.
    which = 'a': fixed = g (K, M), solved = a (N, K), H_i = g W_i g^T;  which = 'g': fixed = a (N, K), solved = g (K, M), H_j = a^T W_j a (+ d_j).
    """
    if which == 'a':
        H = np.einsum('kj,ij,lj->ikl', fixed, w, fixed)
        x = solved
    else:
        H = np.einsum('ik,ij,il->jkl', fixed, w, fixed)
        x = solved.T
        if eps is not None and eps > 0:
            deg = np.full(H.shape[0], 2.0)
            deg[0] = deg[-1] = 1.0
            H = H + eps * deg[:, None, None] * np.eye(H.shape[1])[None]
    if not np.isfinite(H).all():
        return float('inf')
    ev = np.linalg.eigvalsh(H)
    lmax = np.abs(ev).max(axis=1)
    lmin = np.maximum(np.abs(ev).min(axis=1), lmax * EPS)
    K = H.shape[1]
    return float(np.sum(K * K * EPS * EPS * (lmax / lmin) ** 2 * lmax * np.sum(x * x, axis=1)))


def hmf_ref_astep(s, w, g):
    """Reference coefficient update: per spectrum, dense SVD least squares of sqrt(w_i) (g^T a_i - s_i) (minimum norm if rank deficient)."""
    N, K = s.shape[0], g.shape[0]
    a = np.zeros((N, K))
    for i in range(N):
        q = np.sqrt(w[i])
        a[i] = np.linalg.lstsq(q[:, None] * g.T, q * s[i], rcond=None)[0]
    return a


def hmf_ref_gstep(s, w, a):
    """Reference component update without smoothing (the pixels decouple): per pixel, dense SVD least squares."""
    K, M = a.shape[1], s.shape[1]
    g = np.zeros((K, M))
    for j in range(M):
        q = np.sqrt(w[:, j])
        g[:, j] = np.linalg.lstsq(q[:, None] * a, q * s[:, j], rcond=None)[0]
    return g


def hmf_astep_residual(s, w, g, a):
    """Worst component-wise relative residual of the N normal equations G_i a_i = F_i.

    G_i = g diag(w_i) g^T, F_i = g (w_i s_i).  Relative to |G_i||a_i| + |F_i| (what a backward
    stable solve leaves behind is a few eps of that).  This residual is -1/2 of the gradient of
    chi^2 with respect to a_i.
    """
    G = np.einsum('kj,ij,lj->ikl', g, w, g)
    F = np.einsum('kj,ij->ik', g, w * s)
    res = np.einsum('ikl,il->ik', G, a) - F
    scale = np.einsum('ikl,il->ik', np.abs(G), np.abs(a)) + np.abs(F)
    return _relmax(res, scale)


def hmf_gstep_residual(s, w, a, g_old, g_new, eps):
    """Worst relative residual of the M per-pixel equations (A_j + d_j) g_j = F_j + e_j(g_old).

    A_j = a^T diag(w_:j) a, F_j = a^T (w_:j s_:j); for eps > 0 the smoothness term enters as the
    Jacobi splitting the code documents: d_j = eps (ends) or 2 eps (interior) times I and
    e_j = eps * (sum of the *old* neighbouring columns).  For eps None/0 this is the exact
    optimum (vanishing gradient of chi^2 with respect to g_j).
    """
    K, M = g_new.shape
    A = np.einsum('ik,ij,il->jkl', a, w, a)
    F = np.einsum('ik,ij->jk', a, w * s)
    lhs = np.einsum('jkl,lj->jk', A, g_new)
    scale = np.einsum('jkl,lj->jk', np.abs(A), np.abs(g_new)) + np.abs(F)
    if eps is not None and eps > 0:
        deg = np.full(M, 2.0)
        deg[0] = deg[-1] = 1.0
        nb = np.zeros((K, M))
        nb[:, :-1] += g_old[:, 1:]
        nb[:, 1:] += g_old[:, :-1]
        lhs = lhs + eps * (deg[None, :] * g_new).T
        F = F + eps * nb.T
        scale = scale + eps * (deg[None, :] * np.abs(g_new)).T + eps * np.abs(nb).T
    return _relmax(lhs - F, scale)


def _relmax(res, scale):
    if not (np.isfinite(res).all() and np.isfinite(scale).all()):
        return float('inf')
    tiny = np.finfo(np.float64).tiny
    return float(np.max(np.abs(res) / np.maximum(scale, tiny)))


def rms_rows(g):
    g = np.asarray(g, dtype=np.float64)
    return np.sqrt(np.sum(g * g, axis=1) / g.shape[1])


# ---------------------------------------------------------------------------
# pca_solve: weighted projection of a spectrum on eigenspectra
# ---------------------------------------------------------------------------
def projection_residual(G, w, y, a):
    """Normal-equation residual of  a = argmin sum_j w_j (y_j - sum_k a_k G_kj)^2.

    Returns (worst |residual_k| / scale_k, cond of the weighted normal matrix) with
    scale_k = sum_j |G_kj| w_j (|y_j| + sum_l |G_lj||a_l|): an error of relative size e in G
    (here: its float32 rounding) or in y w leaves a residual <= ~3 e scale.
    """
    G = np.asarray(G, dtype=np.float64)
    w = np.asarray(w, dtype=np.float64)
    y = np.asarray(y, dtype=np.float64)
    a = np.asarray(a, dtype=np.float64)
    res = (G * w) @ (y - a @ G)
    scale = (np.abs(G) * w) @ (np.abs(y) + np.abs(a) @ np.abs(G))
    sv = np.linalg.svd(G * np.sqrt(w), compute_uv=False)
    cond = float((sv[0] / sv[-1]) ** 2) if sv[-1] > 0 else float('inf')
    return _relmax(res, scale), cond
