"""Runtime monitors used by every check (see DESIGN.md section 0).

B  Recorder        boundary recorder: wraps public callables, logs call/return/raise events
R  ReachMonitor    sys.monitoring LINE events on the code objects of the anchored mechanism
F  AuditLog        sys.addaudithook recorder (open / putenv / unsetenv / remove / socket.connect)
F  Failpoints      sys.monitoring based source-free fault injection (used by C20)

Rules for every callback (DESIGN 1.3 "the monitor must not become the bug"):
append raw tuples only, no imports, no I/O, no numpy formatting, re-entrancy flag.
"""
import sys
import functools
import threading

mon = sys.monitoring


# > 0 while a monitor makes calls of its own (vlib.brd): recorders and online oracles stand aside, so that what they count and
# judge is what the workload did, not what another monitor did on top of it
SUSPEND = [0]


class MonitorViolation(AssertionError):
    """Raised by contracts / oracles of the harness (never by pydl)."""


# --------------------------------------------------------------------------
# B: boundary recorder
# --------------------------------------------------------------------------
class Recorder:
    """Wrap callables at their module attribute; count calls, returns, raises.

    ``events`` (bounded) keeps the most recent raw events of the current case so
    that a replay file can show what crossed the API boundary.
    """

    def __init__(self, keep=200):
        self.calls = {}
        self.raises = {}
        self.events = []
        self.keep = keep
        self._orig = []

    def wrap(self, owner, name, label=None, digest=None, result=None):
        orig = getattr(owner, name)
        label = label or ('%s.%s' % (getattr(owner, '__name__', type(owner).__name__), name))
        rec = self

        @functools.wraps(orig)
        def wrapper(*a, **k):
            if SUSPEND[0]:
                return orig(*a, **k)
            rec.calls[label] = rec.calls.get(label, 0) + 1
            if len(rec.events) < rec.keep:
                rec.events.append(('call', label, digest(a, k) if digest else None))
            try:
                r = orig(*a, **k)
            except Exception as e:
                key = '%s:%s' % (label, type(e).__name__)
                rec.raises[key] = rec.raises.get(key, 0) + 1
                if len(rec.events) < rec.keep:
                    rec.events.append(('raise', label, type(e).__name__))
                raise
            if len(rec.events) < rec.keep:
                rec.events.append(('return', label, None))
            if result is not None:
                result(a, k, r)            # observer of the returned value (must not modify it)
            return r
        wrapper.__wrapped_by_verif__ = True
        setattr(owner, name, wrapper)
        self._orig.append((owner, name, orig))
        return wrapper

    def new_case(self):
        self.events = []

    def unwrap_all(self):
        for owner, name, orig in reversed(self._orig):
            setattr(owner, name, orig)
        self._orig = []


# --------------------------------------------------------------------------
# R: reach monitor
# --------------------------------------------------------------------------
def _code_lines(code):
    return sorted({l for _, _, l in code.co_lines() if l is not None and l != code.co_firstlineno})


class ReachMonitor:
    """Which lines of the anchored mechanism did the workload execute?

    Uses PEP 669 local LINE events; the callback returns DISABLE after the
    first hit of each location so steady-state cost is ~0.
    """
    TOOL = mon.PROFILER_ID

    def __init__(self):
        self.targets = {}   # code -> label
        self.hit = set()    # (label, line)
        self._active = False

    def add(self, func, label=None):
        f = func
        while hasattr(f, '__wrapped__'):
            f = f.__wrapped__
        f = getattr(f, '__func__', f)
        code = f.__code__
        self.targets[code] = label or ('%s.%s' % (f.__module__.split('.')[-1], f.__qualname__))
        return self

    def start(self):
        if not self.targets:
            return
        try:
            mon.use_tool_id(self.TOOL, 'verif-reach')
        except ValueError:
            pass
        targets = self.targets
        hit = self.hit
        DISABLE = mon.DISABLE

        def on_line(code, line):
            lab = targets.get(code)
            if lab is not None:
                hit.add((lab, line))
            return DISABLE
        mon.register_callback(self.TOOL, mon.events.LINE, on_line)
        for code in self.targets:
            mon.set_local_events(self.TOOL, code, mon.events.LINE)
        self._active = True

    def stop(self):
        if not self._active:
            return
        for code in self.targets:
            mon.set_local_events(self.TOOL, code, 0)
        mon.register_callback(self.TOOL, mon.events.LINE, None)
        mon.free_tool_id(self.TOOL)
        self._active = False

    def report(self):
        """{label: {'hit': [lines], 'total': n}} (JSON-able)."""
        out = {}
        for code, lab in self.targets.items():
            lines = _code_lines(code)
            h = sorted(l for (la, l) in self.hit if la == lab)
            out[lab] = {'hit': h, 'lines': lines}
        return out


def merge_reach(reports):
    out = {}
    for rep in reports:
        for lab, d in rep.items():
            o = out.setdefault(lab, {'hit': set(), 'lines': set()})
            o['hit'].update(d['hit'])
            o['lines'].update(d['lines'])
    res = {}
    for lab, o in sorted(out.items()):
        missed = sorted(o['lines'] - o['hit'])
        res[lab] = {'lines_hit': len(o['hit'] & o['lines']), 'lines_total': len(o['lines']),
                    'missed_lines': missed}
    return res


# --------------------------------------------------------------------------
# F: audit log  (process-wide, cannot be removed once installed)
# --------------------------------------------------------------------------
class AuditLog:
    _installed = None

    def __init__(self):
        self.events = []
        self.enabled = False
        self._tls = threading.local()

    @classmethod
    def get(cls):
        if cls._installed is None:
            log = cls()
            events = log.events
            tls = log._tls
            WATCH = frozenset(('open', 'os.putenv', 'os.unsetenv', 'os.remove', 'os.rename',
                               'socket.connect', 'socket.getaddrinfo', 'os.mkdir', 'os.rmdir',
                               'urllib.Request'))

            def hook(ev, args):
                if not log.enabled or ev not in WATCH:
                    return
                if getattr(tls, 'inside', False):
                    return
                tls.inside = True
                try:
                    if ev == 'open':
                        events.append((ev, args[0], args[1]))
                    elif ev in ('socket.connect',):
                        events.append((ev, args[1]))
                    else:
                        events.append((ev,) + tuple(args))
                finally:
                    tls.inside = False
            sys.addaudithook(hook)
            cls._installed = log
        return cls._installed

    def begin(self):
        del self.events[:]
        self.enabled = True

    def end(self):
        self.enabled = False
        return list(self.events)


def _s(x):
    if isinstance(x, bytes):
        try:
            return x.decode()
        except Exception:
            return repr(x)
    return x if isinstance(x, (str, int, float, type(None))) else repr(x)


def audit_jsonable(events):
    return [[_s(x) for x in ev] for ev in events]


# --------------------------------------------------------------------------
# F: failpoints (source-free fault injection through sys.monitoring)
# --------------------------------------------------------------------------
class InjectedFault(Exception):
    pass


class Failpoints:
    """Record / inject at LINE events of chosen code objects and at PY_START of
    functions called *directly* from chosen code objects."""
    TOOL = mon.DEBUGGER_ID

    def __init__(self, entry_codes):
        self.entry_codes = tuple(entry_codes)
        self.line_seq = []      # (co_name, line)
        self.call_seq = []      # callee co_name / qualname
        self.mode = None
        self.target = None
        self.exc_type = InjectedFault
        self.fired = None
        self._n = 0

    def _on_line(self, code, line):
        if code in self.entry_codes:
            self._n_line += 1
            self.line_seq.append((code.co_name, line))
            if self.mode == 'line' and self._n_line == self.target and self.fired is None:
                self.fired = ('line', code.co_name, line)
                raise self.exc_type('injected at line event %d (%s:%d)' % (self._n_line, code.co_name, line))

    def _on_start(self, code, off):
        fr = sys._getframe(1)
        caller = fr.f_back
        if caller is not None and caller.f_code in self.entry_codes and code not in self.entry_codes:
            self._n_call += 1
            self.call_seq.append(code.co_qualname)
            if self.mode == 'call' and self._n_call == self.target and self.fired is None:
                self.fired = ('call', code.co_qualname, self._n_call)
                raise self.exc_type('injected at call %d (%s)' % (self._n_call, code.co_qualname))

    def arm(self, mode=None, target=None, exc_type=None):
        self.mode, self.target = mode, target
        self.exc_type = exc_type or InjectedFault
        self.fired = None
        self._n_line = 0
        self._n_call = 0
        self.line_seq = []
        self.call_seq = []
        try:
            mon.use_tool_id(self.TOOL, 'verif-failpoints')
        except ValueError:
            pass
        mon.register_callback(self.TOOL, mon.events.LINE, self._on_line)
        mon.register_callback(self.TOOL, mon.events.PY_START, self._on_start)
        for c in self.entry_codes:
            mon.set_local_events(self.TOOL, c, mon.events.LINE)
        mon.set_events(self.TOOL, mon.events.PY_START)

    def disarm(self):
        mon.set_events(self.TOOL, 0)
        for c in self.entry_codes:
            mon.set_local_events(self.TOOL, c, 0)
        mon.register_callback(self.TOOL, mon.events.LINE, None)
        mon.register_callback(self.TOOL, mon.events.PY_START, None)
        mon.free_tool_id(self.TOOL)
