"""Buffer-reuse differential monitor (DESIGN 7.8).

What a function returns may depend on the *content* of its arguments, never on *which objects* carry that content or on what
the same objects carried during an earlier call.  Caches keyed by ``id(array)`` / a weak reference / an attribute stored on an
argument object, memo tables that are never invalidated, work arrays kept between calls: all of them are invisible to a workload
that builds fresh arrays for every call - and every case of every generator does exactly that.

The monitor sits at the boundary of a function (attached like a Recorder wrapper).  For every observed top-level call it keeps its
own argument objects ("buffers") per call *structure* (types, shapes, dtypes of all arguments, including array attributes of
argument objects such as a bspline set or a Mangle polygon).  When a later call with the same structure arrives, then after
the real call it

  1. calls the function once more on the buffers as they are, then refills them IN PLACE with the new call's content - all slots, or only some of them (the others keep what the earlier
     call left there: "same design matrix, new weights", "same coordinate list, larger match length"),
  2. calls the function on the reused buffers and on deep copies of them (fresh objects, identical content),
  3. compares the two answers (and the state the call left in argument objects).  A difference that is reproducible (a second
     fresh call agrees with the first fresh call) is a violation of clause ``buffer-reuse``: the function remembered something about
     objects it does not own.
  4. (opt-in, ``own=True``) result ownership: the answer given to the first fresh call is overwritten in place, the call is
     repeated on fresh copies and must still give the first answer (clause ``result-ownership``): what was returned belongs to
     the caller.

Only deterministic functions without external effects are attached.  The monitor's own calls are made with the monitor
switched off for nested attached functions, after the real call has returned; they cannot change what the caller sees unless
the function has exactly the defect looked for.
"""
import copy
import time
import signal
import pickle
import base64
import functools
import random
import numpy as np
from vlib.monitors import SUSPEND

MAX_BYTES = 4 << 20


class ProtocolTimeout(BaseException):
    """the monitor's own calls used up their CPU allowance (mixed contents can be pathological for the function)"""


def _sig(v, depth=0):
    if isinstance(v, np.ndarray):
        return ('A', v.shape, v.dtype.str)
    if isinstance(v, (bool, int, float, complex, str, bytes, type(None), np.generic)):
        return ('S', type(v).__name__)
    if isinstance(v, (list, tuple)):
        if depth < 2 and len(v) <= 8:
            return ('L', type(v).__name__, tuple(_sig(x, depth + 1) for x in v))
        return ('L', type(v).__name__, len(v))
    if isinstance(v, dict):
        return ('D', len(v))
    d = getattr(v, '__dict__', None)
    if isinstance(d, dict) and depth < 2:
        return ('O', type(v).__name__, tuple(sorted((n, _sig(x, depth + 1)) for n, x in d.items()
                                                     if isinstance(x, np.ndarray))))
    return ('X', type(v).__name__)


def _nbytes(v, depth=0):
    if isinstance(v, np.ndarray):
        return v.nbytes
    if isinstance(v, (list, tuple)) and depth < 3:
        return sum(_nbytes(x, depth + 1) for x in v)
    d = getattr(v, '__dict__', None)
    if isinstance(d, dict) and depth < 2:
        return sum(_nbytes(x, depth + 1) for x in d.values())
    return 0


def _refill(buf, new, base=None):
    """Put the content of ``new`` into ``buf`` in place where that is possible; returns the object to use as the buffer."""
    if isinstance(buf, np.ndarray) and isinstance(new, np.ndarray) and buf.shape == new.shape and buf.dtype == new.dtype \
            and buf.flags.writeable:
        np.copyto(buf, new)
        return buf
    d = getattr(buf, '__dict__', None)
    if isinstance(buf, (tuple, set, frozenset)) or (isinstance(buf, (list, dict)) and not isinstance(d, dict)):
        return copy.deepcopy(new)
    if isinstance(d, dict) and type(buf) is type(new) and not isinstance(buf, np.ndarray):
        if isinstance(buf, list):                      # a list subclass carrying attributes (PolygonList): items and attributes
            buf[:] = [copy.deepcopy(x) for x in new]
        elif isinstance(buf, dict):
            buf.clear()
            buf.update(copy.deepcopy(dict(new)))
        nd = new.__dict__
        # the attributes the caller's object had when this structure was first seen (``base``) take the new content; what the
        # function itself stored on the buffer object during the monitor's calls stays where it is - that is the state whose
        # staleness is being looked for
        for n, x in nd.items():
            if base is not None and n not in base and n in d:
                continue
            if n in d and isinstance(d[n], np.ndarray) and isinstance(x, np.ndarray) and d[n].shape == x.shape \
                    and d[n].dtype == x.dtype and d[n].flags.writeable:
                np.copyto(d[n], x)
            else:
                d[n] = copy.deepcopy(x)
        return buf
    return copy.deepcopy(new)


def same(a, b, depth=0):
    """Structural comparison with a rounding-level tolerance for floats (the two calls differ in memory addresses only)."""
    if depth > 6:
        return True
    if isinstance(a, np.ndarray) or isinstance(b, np.ndarray):
        if not (isinstance(a, np.ndarray) and isinstance(b, np.ndarray)):
            try:
                return same(np.asarray(a), np.asarray(b), depth + 1)
            except Exception:
                return False
        if a.shape != b.shape or a.dtype != b.dtype:
            return False
        if a.dtype.kind in 'fc':
            if a.size == 0:
                return True
            fa, fb = np.isfinite(a), np.isfinite(b)
            if not np.array_equal(fa, fb):
                return False
            if not np.array_equal(a[~fa], b[~fb], equal_nan=True):
                return False
            if not fa.any():
                return True
            scale = float(np.abs(a[fa]).max())
            return bool(np.all(np.abs(a[fa] - b[fb]) <= 1e-9 * np.abs(a[fa]) + 1e-12 * scale))
        if a.dtype.kind == 'V' and a.dtype.names:
            return all(same(a[n], b[n], depth + 1) for n in a.dtype.names)
        if a.dtype.kind == 'O':
            return a.shape == b.shape and all(same(x, y, depth + 1) for x, y in zip(a.ravel().tolist(), b.ravel().tolist()))
        return bool(np.array_equal(a, b))
    if isinstance(a, (float, np.floating)) and isinstance(b, (float, np.floating)):
        if np.isnan(a) or np.isnan(b):
            return bool(np.isnan(a) and np.isnan(b))
        return bool(a == b or abs(a - b) <= 1e-9 * abs(a))
    if isinstance(a, (list, tuple)) and isinstance(b, (list, tuple)):
        return len(a) == len(b) and all(same(x, y, depth + 1) for x, y in zip(a, b))
    if isinstance(a, dict) and isinstance(b, dict):
        return a.keys() == b.keys() and all(same(a[k], b[k], depth + 1) for k in a)
    da, db = getattr(a, '__dict__', None), getattr(b, '__dict__', None)
    if isinstance(da, dict) and isinstance(db, dict) and type(a) is type(b):
        return same({k: v for k, v in da.items() if not k.startswith('__')},
                    {k: v for k, v in db.items() if not k.startswith('__')}, depth + 1)
    try:
        r = (a == b)
        if isinstance(r, np.ndarray):
            return bool(r.all())
        return bool(r)
    except Exception:
        return True


def _poison(r, depth=0):
    """Overwrite a returned value in place the way a caller who owns it may (returns True if anything was changed)."""
    done = False
    if isinstance(r, np.ndarray):
        if r.flags.writeable and r.size:
            try:
                if r.dtype.kind == 'f':
                    r[...] = -7.25e11
                elif r.dtype.kind in 'iu':
                    r[...] = 113
                elif r.dtype.kind == 'b':
                    r[...] = ~r
                elif r.dtype.kind in 'SU':
                    r[...] = 'zz'
                else:
                    return False
                return True
            except Exception:
                return False
        return False
    if isinstance(r, list):
        for x in r:
            done |= _poison(x, depth + 1) if depth < 3 else False
        r.reverse()
        r.append('__poison__')
        return True
    if isinstance(r, dict):
        for x in r.values():
            done |= _poison(x, depth + 1) if depth < 3 else False
        r['__poison__'] = 1
        return True
    if isinstance(r, tuple) and depth < 3:
        for x in r:
            done |= _poison(x, depth + 1)
        return done
    d = getattr(r, '__dict__', None)
    if isinstance(d, dict) and depth < 2:
        for x in list(d.values()):
            done |= _poison(x, depth + 1)
    return done


class BufferReuse:
    def __init__(self):
        self.depth = 0
        self.in_protocol = False   # True while the monitor itself is calling the function (checks that capture inner state skip those calls)
        self.fails = []
        self.counts = {}
        self.store = {}            # (label, structure) -> [slots, uses, warm_case]
        self.enabled = True
        self.current_case = None
        self.sequence = None       # cases to replay for the last violation
        self.rng = random.Random(20240607)
        self.attached = {}         # label -> the monitor's way of calling the function (used by replay_witness)
        self.exhaustive = False    # replays: every call takes part (sampling by `every` / per_case depends on what ran before)
        self.per_case = 6          # at most this many differentials-bearing calls per case (cost bound)
        self.protocol_cpu_s = 1.0  # CPU allowance of one protocol (all its calls); beyond it the protocol is abandoned, not judged
        self.max_call_s = 0.02     # calls that cost more CPU than this are left alone (the protocol repeats a call ~10 times)
        self.used = 0

    def new_case(self, case):
        self.current_case = case
        self.used = 0

    def count(self, name, n=1):
        self.counts[name] = self.counts.get(name, 0) + int(n)

    def drain(self):
        f, c, s = self.fails, self.counts, self.sequence
        self.fails, self.counts, self.sequence = [], {}, None
        return f, c, s

    def attach(self, rec, owner, name, label=None, every=1, own=False, key=None, init=False, skip=None, max_variants=3,
               partial=True):
        """rec: the check's Recorder (for unwrap_all); key(result) -> comparable; init=True for ``__init__`` (a new instance is
        made for every monitor call and its state after the call is what is compared); skip(args, kwargs) -> True for calls the
        monitor must leave alone."""
        orig = getattr(owner, name)
        label = label or ('%s.%s' % (getattr(owner, '__name__', type(owner).__name__), name))
        mon = self
        ncall = [0]
        slow = [0]                 # after a call that was too expensive, the next few calls of this function are not even timed

        def call(slots_a, slots_k):
            a = list(slots_a)
            if init:
                a[0] = type(a[0]).__new__(type(a[0]))
            try:
                with np.errstate(all='ignore'):
                    r = orig(*a, **slots_k)
            except Exception as e:
                return ('raised', type(e).__name__)
            post = [x.__dict__ for x in a if isinstance(getattr(x, '__dict__', None), dict) and not isinstance(x, np.ndarray)]
            return ('ok', key(r) if key else r, post)

        mon.attached[label] = call

        @functools.wraps(orig)
        def wrapper(*a, **k):
            if not mon.enabled or mon.depth > 0:
                return orig(*a, **k)
            ncall[0] += 1
            if ((ncall[0] % every or mon.used >= mon.per_case or slow[0] > 0) and not mon.exhaustive) or (skip is not None and skip(a, k)):
                slow[0] -= 1 if slow[0] > 0 else 0
                return orig(*a, **k)
            mon.used += 1
            mon.depth += 1
            try:
                try:
                    names = sorted(k)
                    vals = list(a) + [k[n] for n in names]
                    if sum(_nbytes(v) for v in vals) > MAX_BYTES:
                        pre = None
                        mon.count('brd_calls_too_large')
                    else:
                        pre = copy.deepcopy(vals)
                        sig = (label, len(a), tuple(names), tuple(_sig(v) for v in vals))
                except Exception:
                    pre = None
                    mon.count('brd_arguments_not_copyable')
                first = None
                if own and pre is not None:
                    SUSPEND[0] += 1
                    mon.in_protocol = True
                    # result ownership, asked before the real call: the monitor plays an earlier caller with the same content who
                    # overwrites what it was given; the real caller must still get the right answer (a value handed out at a
                    # cache *miss* and kept inside is the one that matters, and the first call with some content is the miss)
                    try:
                        c0 = [copy.deepcopy(v) for v in pre]
                        r0 = call(c0[:len(a)], dict(zip(names, c0[len(a):])))
                        if r0[0] == 'ok':
                            snap = copy.deepcopy(r0[1])
                            if _poison(r0[1]):
                                first = snap
                    except Exception:
                        first = None
                    finally:
                        SUSPEND[0] -= 1
                        mon.in_protocol = False
                t0 = time.process_time()
                r = orig(*a, **k)          # the real call; an exception leaves through here, nothing else happens
                if pre is None:
                    return r
                if time.process_time() - t0 > mon.max_call_s:
                    mon.count('brd_calls_too_expensive_to_repeat')
                    slow[0] = 20
                    return r
                if first is not None:
                    mon.count('brd_ownership_checks_before_the_real_call')
                    try:
                        rk = key(r) if key else r
                        if not same(rk, first):
                            mon.fails.append(('result-ownership',
                                              '%s: an earlier caller with the same arguments overwrote the value it had been given; this '
                                              'call then returned something else than that earlier call had - the value handed out is still '
                                              'used inside' % label, {'function': label, 'earlier': repr(first)[:300], 'now': repr(rk)[:300]}))
                            mon.sequence = None
                    except Exception:
                        pass
                SUSPEND[0] += 1
                mon.in_protocol = True
                old_handler = signal.getsignal(signal.SIGVTALRM)
                rem = signal.getitimer(signal.ITIMER_VIRTUAL)[0]
                tp = time.process_time()

                def _out_of_cpu(signum, frame):
                    raise ProtocolTimeout()
                try:
                    signal.signal(signal.SIGVTALRM, _out_of_cpu)
                    signal.setitimer(signal.ITIMER_VIRTUAL, min(rem, mon.protocol_cpu_s) if rem > 0 else mon.protocol_cpu_s)
                    mon._protocol(label, sig, pre, len(a), names, call, own, max_variants if partial else 1)
                except ProtocolTimeout:
                    mon.count('brd_protocols_abandoned_out_of_cpu')
                    mon.store.pop(sig, None)
                    slow[0] = 50
                except Exception as e:
                    mon.count('brd_protocol_gave_up:%s' % type(e).__name__)
                finally:
                    signal.setitimer(signal.ITIMER_VIRTUAL, 0)
                    signal.signal(signal.SIGVTALRM, old_handler)
                    if rem > 0:
                        signal.setitimer(signal.ITIMER_VIRTUAL, max(rem - (time.process_time() - tp), 0.05))
                    SUSPEND[0] -= 1
                    mon.in_protocol = False
                return r
            finally:
                mon.depth -= 1
        setattr(owner, name, wrapper)
        rec._orig.append((owner, name, orig))
        return wrapper

    def _protocol(self, label, sig, pre, na, names, call, own, max_variants):
        ent = self.store.get(sig)
        self.count('brd_calls_observed')
        if ent is None:
            if len(self.store) > 400:
                self.store.pop(next(iter(self.store)))
            bufs = [copy.deepcopy(v) for v in pre]
            call(bufs[:na], dict(zip(names, bufs[na:])))             # warm: the function has now seen these very objects
            base = [set(v.__dict__) if isinstance(getattr(v, '__dict__', None), dict) and not isinstance(v, np.ndarray) else None
                    for v in pre]
            self.store[sig] = [bufs, 0, self.current_case, pre, base]   # pre: pristine copy of the content, never handed to the function
            self.count('brd_structures_warmed')
            return
        bufs, uses, warm_case, old, base = ent                       # old: pristine content of the earlier call
        ent[1] += 1
        n = len(bufs)
        variants = [set(range(n))]                                   # everything new
        differing = [i for i in range(n) if not same(old[i], pre[i])]
        if len(differing) > 1:
            for t in range(4 * max_variants):
                if len(variants) >= max_variants:
                    break
                kind = self.rng.random()
                if kind < 0.35:
                    sub = {self.rng.choice(differing)}                  # one argument new, all others as before
                elif kind < 0.6:
                    sub = set(differing) - {self.rng.choice(differing)}  # one argument as before
                else:
                    sub = {i for i in differing if self.rng.random() < 0.5}
                if sub and sub != set(differing) and sub not in variants:
                    variants.append(sub)
        for vi, sub in enumerate(variants):
            # the buffers get their earlier content back and the function sees them once more (a "most recent call" memory now
            # points at them again, whatever the real call and the fresh calls did to it); then the content changes under it
            for i in range(n):
                bufs[i] = _refill(bufs[i], old[i], base[i])
            call(bufs[:na], dict(zip(names, bufs[na:])))
            # (the call just made may itself have changed its arguments - a spline set keeps its fit - so every slot is put back:
            #  the chosen ones take the new content, the others the earlier content again)
            for i in range(n):
                bufs[i] = _refill(bufs[i], pre[i] if i in sub else old[i], base[i])
            # fresh objects with the same content, built from pristine copies slot by slot: nothing the function may have stored
            # on the buffers (or tied to their identity) comes along
            mixed1 = [copy.deepcopy(pre[i] if i in sub else old[i]) for i in range(n)]
            mixed2 = [copy.deepcopy(pre[i] if i in sub else old[i]) for i in range(n)]
            r_reuse = call(bufs[:na], dict(zip(names, bufs[na:])))
            r_fresh = call(mixed1[:na], dict(zip(names, mixed1[na:])))
            self.count('brd_differentials')
            self.count('brd_differentials_partial_refill', len(sub) < n)
            if not same(r_reuse, r_fresh):
                r_fresh2 = call(mixed2[:na], dict(zip(names, mixed2[na:])))
                if same(r_fresh, r_fresh2):
                    self.fails.append(('buffer-reuse',
                                       '%s: called on argument objects it had been called on before, refilled in place (%s), it answers '
                                       'differently from the same call on fresh copies of the same content - it remembers something about '
                                       'objects it does not own' % (label, 'all arguments new' if len(sub) == n else
                                                                    'arguments %s new, the others as the earlier call left them' % sorted(sub)),
                                       {'function': label, 'refilled_slots': sorted(sub), 'n_slots': n,
                                        'reused': repr(r_reuse)[:300], 'fresh': repr(r_fresh)[:300],
                                        'brd_witness': _pack((label, old, pre, sorted(sub), na, names, base))}))
                    self.sequence = [c for c in (warm_case, self.current_case) if c is not None]
                    ent[2] = self.current_case
                    return
                self.count('brd_nondeterministic_calls')
                continue
            if own and vi == 0 and r_fresh[0] == 'ok':
                snap = copy.deepcopy(r_fresh[1])
                if _poison(r_fresh[1]):
                    r_again = call(mixed2[:na], dict(zip(names, mixed2[na:])))
                    self.count('brd_ownership_checks')
                    if r_again[0] == 'ok' and not same(r_again[1], snap):
                        self.fails.append(('result-ownership',
                                           '%s: after the caller overwrote the value it had been given, an identical later call returns '
                                           'something else than before - the value handed out is still used inside' % label,
                                           {'function': label, 'first': repr(snap)[:300], 'later': repr(r_again[1])[:300]}))
                        self.sequence = [self.current_case] if self.current_case is not None else None
                        return
        ent[3] = pre                                                 # next time "before" means this call
        ent[2] = self.current_case

    def replay_witness(self, blob):
        """Re-enact a recorded buffer-reuse violation from its stored contents (independent of which calls the sampling picks):
        returns a message if the function still answers differently on reused and on fresh objects, else None."""
        label, old, pre, sub, na, names, base = pickle.loads(base64.b64decode(blob))
        call = self.attached.get(label)
        if call is None:
            return 'function %s is not attached in this check any more' % label
        n = len(old)
        SUSPEND[0] += 1
        self.in_protocol = True
        self.depth += 1
        try:
            bufs = [copy.deepcopy(v) for v in old]
            call(bufs[:na], dict(zip(names, bufs[na:])))
            call(bufs[:na], dict(zip(names, bufs[na:])))
            for i in range(n):
                bufs[i] = _refill(bufs[i], pre[i] if i in sub else old[i], base[i])
            mixed = [copy.deepcopy(pre[i] if i in sub else old[i]) for i in range(n)]
            mixed2 = [copy.deepcopy(pre[i] if i in sub else old[i]) for i in range(n)]
            r_reuse = call(bufs[:na], dict(zip(names, bufs[na:])))
            r_fresh = call(mixed[:na], dict(zip(names, mixed[na:])))
            r_fresh2 = call(mixed2[:na], dict(zip(names, mixed2[na:])))
        finally:
            SUSPEND[0] -= 1
            self.in_protocol = False
            self.depth -= 1
        if not same(r_reuse, r_fresh) and same(r_fresh, r_fresh2):
            return ('%s: called on argument objects it had been called on before, refilled in place, it answers differently from the '
                    'same call on fresh copies of the same content (recorded contents re-enacted)' % label)
        return None


def _pack(obj):
    try:
        b = base64.b64encode(pickle.dumps(obj, protocol=4)).decode('ascii')
        return b if len(b) < 24 << 20 else None
    except Exception:
        return None

