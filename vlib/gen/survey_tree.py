"""Synthetic SDSS/BOSS survey trees for pydl.pydlspec2d.spec1d.readspec (properties C16, C20).

``write_tree(root, plates=[(plate, mjd, nfiber, npix, coeff0, coeff1), ...], run2d=..., run1d=...)``
writes, with astropy only,

    <root>/redux/<run2d>/<PPPP>/spPlate-PPPP-MMMMM.fits            7 HDUs + COEFF0/COEFF1 in the primary header
    <root>/redux/<run2d>/<PPPP>/<run1d>/spZbest-PPPP-MMMMM.fits    (zbest=True)
    <root>/redux/<run2d>/<PPPP>/<run1d>/spZall-PPPP-MMMMM.fits     (zall=nper > 0)
    <root>/redux/<run2d>/<PPPP>/photoPlate-PPPP-MMMMM.fits         (photoplate='plate')
    <root>/match/<run2d>/<resolve>/<PPPP>/photoPlate-PPPP-MMMMM.fits   (photoplate='match', the SDSS-I/II place)
    <root>/redux/platelist.fits                                    (platelist=True; <root>/flat/ in the flat layout)

(``layout='flat'`` puts every spPlate/photoPlate into ``<root>/flat`` and the redshift files into
``<root>/flat/<run1d>``: the ``path=`` convention of readspec) and returns a JSON-able description.

Unique-id principle (``content='ids'``): every stored number encodes where it is stored, so a cell
that comes back from the code under test names the file, HDU, row and pixel it was read from.

    image pixel  = (((file*8 + hdu)*1024 + fibre)*64 + pixel) + 1          (< 2**24: exact in float32)
    table cell   = ((((file*16 + table)*32 + column)*1024 + fibre)*8 + element) + 1   (< 2**27: int32 / float64)
    string cell  = 'T%02dC%02dF%02dR%04d' % (table, column, file, fibre)

``file`` is the index of the plate-MJD file in ``desc['files']`` (plus ``file_base``, so that two
trees holding the same plates can be told apart), ``fibre`` is 1-based, zero never occurs, hence
zero-padding is distinguishable from data.  Columns that real consumers interpret keep their real
meaning: plugmap FIBERID, zbest/zall PLATE, MJD, FIBERID (they identify their origin anyway).

``table_variation=<int>`` (opt-in) makes the tables as heterogeneous between plate files as a real survey's:
string columns are only as wide as the longest value of that file (values get a suffix of 0..8 characters, the
maximum differs per file), extra integer columns are int16 / int32 / int64 and extra float columns float32 / float64
depending on the file (a wider file holds values the narrower type cannot represent), plain id columns are int32 or
int64, and the column order differs from file to file.  ``desc['columns'][table]`` lists (name, kind) of every column
written, ``file_rec['tab'][table]`` the per-file order / formats; ``table_cell`` returns the full value written.

``header_variation=<int>`` (opt-in) gives the spPlate headers the other keywords real files carry next to COEFF0 / COEFF1,
with values that do NOT simply repeat them: per file one of the styles 'sdss' (CRPIX1 = 1, CRVAL1 = COEFF0, CD1_1 = COEFF1,
CTYPE1, DC-FLAG), 'crpix' (the same solution referred to pixel CRPIX1 != 1: CRVAL1 = COEFF0 + (CRPIX1-1)*COEFF1),
'inconsistent' (CRVAL1 / CD1_1 / CDELT1 describe another solution), 'wat' (IRAF WAT cards + CDELT1), 'none'; the other
image HDUs and the plug-map table repeat COEFF0 / COEFF1 / CRVAL1 with other values.  readspec documents COEFF0 / COEFF1
of the primary header as the wavelength solution: ``loglam(file_rec)`` is always that.  ``file_rec['header']`` holds the
style and the cards written.

``add_file(desc, spec)`` / ``remove_file(desc, plate, mjd)`` change a tree that was already read (a later MJD is
delivered, the latest one withdrawn, a file replaced under the same name with other ids): external state is an input.

``content='spectra'`` stores smooth positive spectra + noise instead (flux), constant inverse
variance, zero masks: what a pipeline such as template_input needs to run to completion.
"""
import os
import contextlib
import numpy as np
from astropy.io import fits

# HDU order of an spPlate file as readspec reads it
HDU_NAMES = ('flux', 'invvar', 'andmask', 'ormask', 'disp', 'plugmap', 'sky')
IMAGE_HDU = {'flux': 0, 'invvar': 1, 'andmask': 2, 'ormask': 3, 'disp': 4, 'sky': 6}
IMAGE_DTYPE = {'flux': 'f4', 'invvar': 'f4', 'andmask': 'i4', 'ormask': 'i4', 'disp': 'f4', 'sky': 'f4'}
TABLE_ID = {'plugmap': 5, 'zbest': 8, 'photoplate': 9, 'zall': 10}

MAX_FILES = 32
MAX_FIBRE = 1023
MAX_PIX = 64

# (name, kind) kind: 'fiberid' | 'plate' | 'mjd' real values, 'i' int32 id, 'd' float64 id, 'd5' float64[5] ids, 's' string id
TABLE_COLUMNS = {
    'plugmap': (('FIBERID', 'fiberid'), ('OBJTYPE', 's'), ('RA', 'd'), ('DEC', 'd'), ('MAG', 'd5')),
    'zbest': (('PLATE', 'plate'), ('MJD', 'mjd'), ('FIBERID', 'fiberid'), ('CLASS', 's'), ('Z', 'd'),
              ('SN_MEDIAN', 'd5'), ('ZWARNING', 'i')),
    'zall': (('PLATE', 'plate'), ('MJD', 'mjd'), ('FIBERID', 'fiberid'), ('CLASS', 's'), ('Z', 'd'), ('ZNUM', 'i')),
    'photoplate': (('RUN', 'i'), ('PSFFLUX', 'd5'), ('FLAGS', 'i'), ('OBJC_TYPE', 's')),
}
STRLEN = 16
# extra columns written when table_variation is on: 'vi' int16|int32|int64, 'vf' float32|float64 depending on the file
VAR_COLUMNS = {
    'plugmap': (('SPECTROGRAPHID', 'vi'), ('XFOCAL', 'vf'), ('SUBTYPE', 's')),
    'zbest': (('NPOLY', 'vi'), ('RCHI2', 'vf'), ('SUBCLASS', 's')),
    'zall': (('NPOLY', 'vi'), ('RCHI2', 'vf'), ('SUBCLASS', 's')),
    'photoplate': (('NCHILD', 'vi'), ('AIRMASS', 'vf'), ('SKYVERSION', 's')),
}
SUFFIX = '-abcdefg'


def table_columns(file_rec_or_desc, table):
    """(name, kind) of the columns of ``table`` in this tree (tuple; TABLE_COLUMNS[table] without table_variation)."""
    cols = (file_rec_or_desc.get('columns') or {}).get(table)
    return tuple(tuple(c) for c in cols) if cols else TABLE_COLUMNS[table]


# ------------------------------------------------------------------------------------------------
# id codes
# ------------------------------------------------------------------------------------------------
def image_code(file_index, hdu, fibre, pixel):
    """Stored value of pixel ``pixel`` (0-based) of fibre ``fibre`` (1-based) in image HDU ``hdu``
    (index or name) of file ``file_index``.  Broadcasts over numpy arrays; result is int64."""
    if isinstance(hdu, str):
        hdu = IMAGE_HDU[hdu]
    fibre = np.asarray(fibre, dtype=np.int64)
    pixel = np.asarray(pixel, dtype=np.int64)
    return ((np.int64(file_index) * 8 + hdu) * 1024 + fibre) * 64 + pixel + 1


def image_decode(values):
    """Inverse of image_code.  Returns dict of int64 arrays file, hdu, fibre, pixel and a bool array
    ``valid`` (False where the value is 0, negative, non-integral or out of range)."""
    v = np.asarray(values, dtype=np.float64)
    ok = np.isfinite(v) & (v >= 1) & (v <= 2**24) & (v == np.floor(v))
    c = np.where(ok, v, 1).astype(np.int64) - 1
    return {'valid': ok, 'pixel': c % 64, 'fibre': (c // 64) % 1024, 'hdu': (c // 65536) % 8,
            'file': c // 524288}


def table_code(file_index, table, column, fibre, element=0):
    """Stored value of element ``element`` of numeric column number ``column`` of table ``table``
    (name or id) for fibre ``fibre`` (1-based) of file ``file_index``."""
    if isinstance(table, str):
        table = TABLE_ID[table]
    fibre = np.asarray(fibre, dtype=np.int64)
    element = np.asarray(element, dtype=np.int64)
    return ((((np.int64(file_index) * 16 + table) * 32 + column) * 1024 + fibre) * 8 + element) + 1


def table_decode(values):
    v = np.asarray(values, dtype=np.float64)
    ok = np.isfinite(v) & (v >= 1) & (v <= 2**27) & (v == np.floor(v))
    c = np.where(ok, v, 1).astype(np.int64) - 1
    return {'valid': ok, 'element': c % 8, 'fibre': (c // 8) % 1024, 'column': (c // 8192) % 32,
            'table': (c // 262144) % 16, 'file': c // 4194304}


def string_code(file_index, table, column, fibre):
    if isinstance(table, str):
        table = TABLE_ID[table]
    return 'T%02dC%02dF%02dR%04d' % (table, column, file_index, fibre)


def table_cell(file_rec, table, colname, fibre, znum=1):
    """Expected content of column ``colname`` of ``table`` for one fibre of one file (scalar, str or
    float64[5]); ``znum`` (1-based) selects the fit within a fibre for table 'zall'."""
    tab = (file_rec.get('tab') or {}).get(table)
    cols = TABLE_COLUMNS[table] + (VAR_COLUMNS[table] if tab else ())
    names = [c[0] for c in cols]
    ci = names.index(colname)
    kind = cols[ci][1]
    fi = file_rec['index']
    if kind in ('vi', 'vf'):
        narrow = fi * 1024 + int(fibre)                      # <= 32767: fits int16, exact in float32
        fmt = tab['fmt'][colname]
        if kind == 'vi':
            return narrow + {'i2': 0, 'i4': 1 << 20, 'i8': 1 << 40}[fmt]
        return narrow + 0.5 + (2.0 ** -30 if fmt == 'f8' else 0.0)
    if kind == 'fiberid':
        return fibre
    if kind == 'plate':
        return file_rec['plate']
    if kind == 'mjd':
        return file_rec['mjd']
    el = (znum - 1) if table == 'zall' else 0
    if kind == 's':
        v = string_code(fi, table, ci, fibre) + ('Z%d' % znum if table == 'zall' else '')
        if tab:
            v += SUFFIX[:(int(fibre) * 3 + fi + ci) % (tab['extra'][colname] + 1)]
        return v
    if kind in ('i', 'd'):
        return int(table_code(fi, table, ci, fibre, el))
    if kind == 'd5':
        return table_code(fi, table, ci, fibre, np.arange(5)).astype('f8')
    raise ValueError(kind)


def loglam(file_rec):
    """Wavelength solution of a file: COEFF0 + COEFF1*pixel (float64)."""
    return file_rec['coeff0'] + file_rec['coeff1'] * np.arange(file_rec['npix'], dtype='f8')


# ------------------------------------------------------------------------------------------------
# writers
# ------------------------------------------------------------------------------------------------
def _table_array(file_rec, table, nper=1):
    nf = file_rec['nfiber']
    tab = (file_rec.get('tab') or {}).get(table)
    cols = TABLE_COLUMNS[table] + (VAR_COLUMNS[table] if tab else ())
    kinds = dict(cols)
    order = tab['order'] if tab else [c[0] for c in cols]
    nrows = nf * nper
    values = {}
    for name in order:
        values[name] = [table_cell(file_rec, table, name, r // nper + 1, znum=r % nper + 1) for r in range(nrows)]
    dt = []
    for name in order:
        kind = kinds[name]
        if kind in ('fiberid', 'plate', 'mjd'):
            dt.append((name, 'i4'))
        elif kind == 'i':
            dt.append((name, tab['fmt'][name] if tab else 'i4'))
        elif kind in ('vi', 'vf'):
            dt.append((name, tab['fmt'][name]))
        elif kind == 'd':
            dt.append((name, 'f8'))
        elif kind == 'd5':
            dt.append((name, 'f8', (5,)))
        elif tab:
            # as wide as the longest value of THIS file, like the real reductions
            dt.append((name, 'S%d' % max([len(v) for v in values[name]] + [1])))
        else:
            dt.append((name, 'S%d' % (STRLEN + (2 if table == 'zall' else 0))))
    a = np.zeros(nrows, dtype=dt)
    for name in order:
        if nrows:
            a[name] = np.array(values[name])
    return a


def _vary_tables(seed, position):
    """per-file table layout: {table: {'order': [names], 'fmt': {name: dtype}, 'extra': {name: longest suffix}}}"""
    import random
    rv = random.Random('%s|%d' % (seed, position))
    out = {}
    for table in TABLE_COLUMNS:
        cols = TABLE_COLUMNS[table] + VAR_COLUMNS[table]
        order = [c[0] for c in cols]
        if rv.random() < 0.7:
            rv.shuffle(order)
        fmt, extra = {}, {}
        for name, kind in cols:
            if kind == 'vi':
                fmt[name] = rv.choice(['i2', 'i2', 'i4', 'i8'])
            elif kind == 'vf':
                fmt[name] = rv.choice(['f4', 'f8'])
            elif kind == 'i':
                fmt[name] = rv.choice(['i4', 'i4', 'i8'])
            elif kind == 's':
                extra[name] = rv.choice([0, 0, 1, 2, 4, 7, 8])
        out[table] = {'order': order, 'fmt': fmt, 'extra': extra}
    return out


def _spectra(file_rec, rng):
    lam = loglam(file_rec)
    nf = file_rec['nfiber']
    base = np.vstack([10 + 3 * np.sin(lam * 200 + k) + k for k in range(nf)])
    return (base + rng.normal(0, 0.1, base.shape)).astype('f4')


def _vary_header(seed, position, c0, c1, npix):
    import random
    rv = random.Random('hdr|%s|%d' % (seed, position))
    style = rv.choice(['sdss', 'crpix', 'crpix', 'inconsistent', 'inconsistent', 'wat', 'none'])
    cards = {}
    if style == 'sdss':
        cards = {'CRPIX1': 1, 'CRVAL1': c0, 'CD1_1': c1, 'CTYPE1': 'LINEAR', 'DC-FLAG': 1}
    elif style == 'crpix':
        k = rv.choice([2, 19, npix, rv.randint(2, 64)])
        cards = {'CRPIX1': k, 'CRVAL1': c0 + (k - 1) * c1, 'CD1_1': c1, 'CDELT1': c1, 'CTYPE1': 'LINEAR', 'DC-FLAG': 1}
    elif style == 'inconsistent':
        cards = {'CRPIX1': rv.choice([1, 1, 0, 5]), 'CRVAL1': round(c0 + rv.choice([0.01, -0.02, 0.3]), 4),
                 'CD1_1': c1 * rv.choice([2, 0.5, 1]), 'CDELT1': c1 * 3, 'CTYPE1': 'WAVE-LOG', 'DC-FLAG': 0}
    elif style == 'wat':
        cards = {'WAT0_001': 'system=linear', 'WAT1_001': 'wtype=linear label=Wavelength units=Angstroms',
                 'CDELT1': c1 * 2, 'CRVAL1': round(c0 + 0.05, 4), 'LTM1_1': 1.0}
    # what the other HDUs say about the wavelengths (never the documented source)
    other = {'COEFF0': round(c0 + rv.choice([0.1, -0.1, 0.003]), 4), 'COEFF1': c1 * rv.choice([2, 3, 0.5]),
             'CRVAL1': round(c0 - 0.2, 4), 'CD1_1': c1 * 5, 'CRPIX1': 7} if rv.random() < 0.7 else {}
    return {'style': style, 'cards': cards, 'other_hdus': other}


def write_spplate(path, file_rec, content='ids', rng=None, extra_header=None):
    nf, npix, fi = file_rec['nfiber'], file_rec['npix'], file_rec['index']
    fib = np.arange(1, nf + 1)[:, None]
    pix = np.arange(npix)[None, :]
    hdus = []
    for k, name in enumerate(HDU_NAMES):
        if name == 'plugmap':
            h = fits.BinTableHDU(_table_array(file_rec, 'plugmap'))
            h.name = 'PLUGMAP'
        else:
            if content == 'ids':
                img = image_code(fi, k, fib, pix).astype(IMAGE_DTYPE[name])
            elif name == 'flux':
                img = _spectra(file_rec, rng)
            elif name == 'invvar':
                img = np.full((nf, npix), 100., dtype='f4')
            elif name == 'disp':
                img = np.ones((nf, npix), dtype='f4')
            else:
                img = np.zeros((nf, npix), dtype=IMAGE_DTYPE[name])
            h = fits.PrimaryHDU(img) if k == 0 else fits.ImageHDU(img)
            if k == 0:
                hv = file_rec.get('header') or {}
                cards = dict(hv.get('cards') or {})
                # real headers carry the WCS cards BEFORE the SDSS-specific ones
                for kk in ('CRVAL1', 'CD1_1', 'CRPIX1', 'CDELT1', 'CTYPE1', 'DC-FLAG', 'WAT0_001', 'WAT1_001', 'LTM1_1'):
                    if kk in cards:
                        h.header[kk] = cards[kk]
                h.header['COEFF0'] = file_rec['coeff0']
                h.header['COEFF1'] = file_rec['coeff1']
                h.header['PLATEID'] = file_rec['plate']
                h.header['MJD'] = file_rec['mjd']
                for kk, vv in (extra_header or {}).items():
                    h.header[kk] = vv
            else:
                for kk, vv in ((file_rec.get('header') or {}).get('other_hdus') or {}).items():
                    h.header[kk] = vv
        if name == 'plugmap':
            for kk, vv in ((file_rec.get('header') or {}).get('other_hdus') or {}).items():
                h.header[kk] = vv
        hdus.append(h)
    fits.HDUList(hdus).writeto(path, overwrite=True)


def _write_table_file(path, arr, header=None):
    p = fits.PrimaryHDU()
    for k, v in (header or {}).items():
        p.header[k] = v
    fits.HDUList([p, fits.BinTableHDU(arr)]).writeto(path, overwrite=True)


def write_tree(root, plates, run2d='v5_7_0', run1d=None, layout='tree', zbest=True, zall=0,
               photoplate=None, platelist=False, file_base=0, content='ids', seed=0,
               resolve='2010-05-23', table_variation=None, header_variation=None):
    """Write a synthetic survey tree below ``root`` and return its description.

    plates     [(plate, mjd, nfiber, npix, coeff0, coeff1), ...]; the same plate may occur with several MJDs
    run2d      directory name of the 2d reduction ('26' style integers are SDSS-I/II, readspec then
               consults SPECTRO_REDUX instead of BOSS_SPECTRO_REDUX)
    run1d      sub-directory of the redshift files (default: run2d)
    layout     'tree' (topdir/run2d/PPPP/...) or 'flat' (one directory, the path= convention)
    zbest      write spZbest files;  zall=nper>0 additionally writes spZall files with nper fits per fibre
    photoplate None | 'plate' (next to the spPlate) | 'match' ($SPECTRO_MATCH/run2d/<resolve>/PPPP/)
    platelist  write <topdir>/platelist.fits (PLATE, MJD, RUN2D, RUN1D, N_TOTAL, STATUS1D, RACEN, DECCEN)
    file_base  first file index used in the id codes
    content    'ids' (unique-id principle) or 'spectra' (smooth spectra, runnable through the pipeline)
    table_variation  None, or an int seed: per-file string widths, int16/32/64 and float32/64 columns, column order
    header_variation None, or an int seed: WCS / WAT cards next to COEFF0/COEFF1 that do not repeat them (see module doc)

    Returned dict (JSON-able): root, topdir, path (flat layout), match, resolve, run2d, run1d, layout,
    files=[{index, plate, mjd, nfiber, npix, coeff0, coeff1, dir, spplate, zbest, zall, photoplate}],
    key={'plate-mjd': position in files}, latest={'plate': newest mjd}, nper, env (see env_for).
    """
    if run1d is None:
        run1d = run2d
    if content not in ('ids', 'spectra'):
        raise ValueError(content)
    if len(plates) + file_base > MAX_FILES:
        raise ValueError('too many files for the id code')
    rng = np.random.default_rng(seed)
    topdir = os.path.join(root, 'redux')
    match = os.path.join(root, 'match')
    flat = os.path.join(root, 'flat')
    desc = {'root': root, 'topdir': topdir, 'path': flat if layout == 'flat' else None, 'match': match,
            'resolve': os.path.join(root, 'resolve', resolve), 'run2d': run2d, 'run1d': run1d,
            'layout': layout, 'files': [], 'key': {}, 'latest': {}, 'nper': int(zall), 'content': content,
            'has_zbest': bool(zbest), 'photoplate': photoplate, 'platelist': bool(platelist),
            'table_variation': table_variation, 'header_variation': header_variation,
            'columns': {t: [list(c) for c in TABLE_COLUMNS[t] + (VAR_COLUMNS[t] if table_variation is not None else ())]
                        for t in TABLE_COLUMNS}}
    os.makedirs(topdir, exist_ok=True)
    desc['file_base'] = int(file_base)
    desc['resolve_name'] = resolve
    for spec in plates:
        add_file(desc, spec, _rng=rng, _platelist=False)
    if platelist:
        _write_platelist(desc)
    desc['env'] = env_for(desc)
    return desc


def _write_platelist(desc):
    live = [rec for rec in desc['files'] if not rec.get('removed')]
    pl = np.zeros(len(live), dtype=[('PLATE', 'i4'), ('MJD', 'i4'), ('RUN2D', 'S16'), ('RUN1D', 'S16'),
                                    ('N_TOTAL', 'i4'), ('STATUS1D', 'S8'), ('RACEN', 'f8'), ('DECCEN', 'f8')])
    for n, rec in enumerate(live):
        pl[n] = (rec['plate'], rec['mjd'], desc['run2d'], desc['run1d'], rec['nfiber'], 'Done', 10.0 * n, 1.0 * n)
    fits.HDUList([fits.PrimaryHDU(), fits.BinTableHDU(pl)]).writeto(
        os.path.join(desc['path'] if desc['layout'] == 'flat' else desc['topdir'], 'platelist.fits'), overwrite=True)


def add_file(desc, spec, _rng=None, _platelist=True):
    """Deliver one more plate-MJD (plate, mjd, nfiber, npix, coeff0, coeff1) into an existing tree: spPlate and the
    optional files the tree has, platelist.fits rewritten.  The file gets the next unused file index (so a file that
    is removed and written again under the same name holds other ids).  Updates and returns ``desc``'s new record."""
    plate, mjd, nfiber, npix, c0, c1 = spec
    plate, mjd, nfiber, npix = int(plate), int(mjd), int(nfiber), int(npix)
    content, run2d, run1d = desc['content'], desc['run2d'], desc['run1d']
    n = len(desc['files'])
    if content == 'ids' and (nfiber > MAX_FIBRE or npix > MAX_PIX):
        raise ValueError('nfiber <= %d and npix <= %d required by the id code' % (MAX_FIBRE, MAX_PIX))
    if content == 'ids' and desc['file_base'] + n >= MAX_FILES:
        raise ValueError('too many files for the id code')
    key = '%d-%d' % (plate, mjd)
    if key in desc['key']:
        raise ValueError('duplicate plate-mjd %s' % key)
    if _rng is None:
        _rng = np.random.default_rng((n, plate, mjd))
    tv = desc.get('table_variation')
    pm = '%04d-%05d' % (plate, mjd)
    d = desc['path'] if desc['layout'] == 'flat' else os.path.join(desc['topdir'], run2d, '%04d' % plate)
    rec = {'index': desc['file_base'] + n, 'plate': plate, 'mjd': mjd, 'nfiber': nfiber, 'npix': npix,
           'coeff0': float(c0), 'coeff1': float(c1), 'dir': d,
           'spplate': os.path.join(d, 'spPlate-%s.fits' % pm), 'zbest': None, 'zall': None, 'photoplate': None,
           'tab': _vary_tables(tv, n) if tv is not None else None,
           'header': _vary_header(desc['header_variation'], n, float(c0), float(c1), npix)
           if desc.get('header_variation') is not None else None}
    os.makedirs(os.path.join(d, run1d), exist_ok=True)
    write_spplate(rec['spplate'], rec, content=content, rng=_rng)
    if desc['has_zbest']:
        rec['zbest'] = os.path.join(d, run1d, 'spZbest-%s.fits' % pm)
        _write_table_file(rec['zbest'], _table_array(rec, 'zbest'))
    if desc['nper']:
        rec['zall'] = os.path.join(d, run1d, 'spZall-%s.fits' % pm)
        _write_table_file(rec['zall'], _table_array(rec, 'zall', nper=desc['nper']),
                          header={'DIMS0': desc['nper'], 'DIMS1': nfiber})
    if desc['photoplate'] == 'plate':
        rec['photoplate'] = os.path.join(d, 'photoPlate-%s.fits' % pm)
    elif desc['photoplate'] == 'match':
        pd = os.path.join(desc['match'], run2d, desc['resolve_name'], '%04d' % plate)
        os.makedirs(pd, exist_ok=True)
        rec['photoplate'] = os.path.join(pd, 'photoPlate-%s.fits' % pm)
    elif desc['photoplate'] is not None:
        raise ValueError(desc['photoplate'])
    if rec['photoplate']:
        _write_table_file(rec['photoplate'], _table_array(rec, 'photoplate'))
    desc['key'][key] = n
    desc['latest'][str(plate)] = max(mjd, desc['latest'].get(str(plate), 0))
    desc['files'].append(rec)
    if _platelist and desc['platelist']:
        _write_platelist(desc)
    return rec


def remove_file(desc, plate, mjd):
    """Withdraw a plate-MJD from the tree: its spPlate / spZbest / spZall / photoPlate files are deleted, the record
    stays in ``desc['files']`` marked ``removed`` (file indices are never reused), key / latest / platelist updated."""
    key = '%d-%d' % (int(plate), int(mjd))
    rec = desc['files'][desc['key'].pop(key)]
    for k in ('spplate', 'zbest', 'zall', 'photoplate'):
        if rec[k] and os.path.exists(rec[k]):
            os.remove(rec[k])
    rec['removed'] = True
    left = [r['mjd'] for r in desc['files'] if r['plate'] == rec['plate'] and not r.get('removed')]
    if left:
        desc['latest'][str(rec['plate'])] = max(left)
    else:
        desc['latest'].pop(str(rec['plate']), None)
    if desc['platelist']:
        _write_platelist(desc)
    return rec


def file_of(desc, plate, mjd):
    """File record of a plate-MJD pair (KeyError if the tree has no such file)."""
    return desc['files'][desc['key']['%d-%d' % (int(plate), int(mjd))]]


def env_for(desc):
    """Environment variables under which readspec finds this tree without keyword overrides."""
    try:
        int(desc['run2d'])
        redux = 'SPECTRO_REDUX'
    except ValueError:
        redux = 'BOSS_SPECTRO_REDUX'
    return {redux: desc['topdir'], 'RUN2D': desc['run2d'], 'RUN1D': desc['run1d'],
            'SPECTRO_MATCH': desc['match'], 'PHOTO_RESOLVE': desc['resolve']}


SURVEY_VARS = ('BOSS_SPECTRO_REDUX', 'SPECTRO_REDUX', 'RUN2D', 'RUN1D', 'SPECTRO_MATCH', 'PHOTO_RESOLVE')


@contextlib.contextmanager
def environment(env, clear=SURVEY_VARS):
    """Run a block with the variables in ``clear`` removed and those of ``env`` set; afterwards
    os.environ is exactly what it was before (values restored, created keys removed)."""
    saved = dict(os.environ)
    try:
        for k in clear:
            os.environ.pop(k, None)
        for k, v in env.items():
            if v is None:
                os.environ.pop(k, None)
            else:
                os.environ[k] = v
        yield
    finally:
        for k in list(os.environ):
            if k not in saved:
                del os.environ[k]
        for k, v in saved.items():
            if os.environ.get(k) != v:
                os.environ[k] = v
