"""Cross-workload monitoring (DESIGN 7.7).

A property's check normally drives the functions it watches itself.  Most of them are, however, *also* called from inside
other public entry points (iterfit -> bspline.fit/value/djs_reject, combine1fiber -> iterfit, filter_thru -> traceset2xy,
template_input -> readspec/combine1fiber/pca_solve, the repository's own test suite -> everything), with arguments that no
generator of the watching check ever builds.  This module lets a *host* check keep its per-call oracle ("online monitor")
attached to its own functions while the workload of another check (the *driver*) or the repository's test suite runs in
the same process.  The driver's own verdict is discarded - it belongs to another property and is decided by that
property's check - only what the host's monitors observed at the boundary of the host's functions counts.

An online monitor must decide from the call alone (arguments, object state, result) whether the call is inside the domain of
its clauses; calls outside are counted, not judged.
"""
import os
import sys
import importlib
import tempfile
import warnings
from vlib.monitors import SUSPEND

DRIVERS = {
    'C01': 'checks.c01_yanny_roundtrip', 'C02': 'checks.c02_yanny_syntax', 'C03': 'checks.c03_yanny_history',
    'C04': 'checks.c04_spherematch', 'C05': 'checks.c05_spheregroup', 'C06': 'checks.c06_ids', 'C07': 'checks.c07_maskbits',
    'C08': 'checks.c08_bspline_value', 'C09': 'checks.c09_bspline_fit', 'C10': 'checks.c10_iterfit',
    'C11': 'checks.c11_combine1fiber', 'C12': 'checks.c12_mangle', 'C13': 'checks.c13_trace', 'C14': 'checks.c14_idl_builtins',
    'C15': 'checks.c15_solvers', 'C16': 'checks.c16_readspec', 'C17': 'checks.c17_pixels', 'C18': 'checks.c18_sphere_geometry',
    'C19': 'checks.c19_conversions', 'C20': 'checks.c20_env_restore',
}


class Online:
    """Collector the host's wrappers report to.  Only active between begin() and end()."""

    def __init__(self):
        self.active = False
        self.fails = []
        self.counts = {}
        self.busy = False      # re-entrancy guard: oracles may call library code themselves

    def begin(self):
        self.active = True
        self.fails = []
        self.counts = {}

    def end(self):
        self.active = False
        return self.fails, self.counts

    def count(self, name, n=1):
        self.counts[name] = self.counts.get(name, 0) + int(n)

    def fail(self, clause, msg, **detail):
        if len(self.fails) < 20:
            self.fails.append((clause, msg, detail))

    def attach(self, rec, owner, name, oracle, label=None, pre=None):
        """Wrap owner.name through the host's Recorder; ``oracle(online, args, kwargs, result, pre_state)`` runs after every
        successful call made while the collector is active (whoever makes the call).  ``pre(args, kwargs)`` may capture
        state before the call (byte copies of arguments ...)."""
        online = self
        orig = getattr(owner, name)
        import functools

        @functools.wraps(orig)
        def wrapper(*a, **k):
            if not online.active or online.busy or SUSPEND[0]:
                return orig(*a, **k)
            st = None
            if pre is not None:
                online.busy = True
                try:
                    st = pre(a, k)
                finally:
                    online.busy = False
            r = orig(*a, **k)
            online.busy = True
            try:
                with warnings.catch_warnings():
                    warnings.simplefilter('ignore')
                    oracle(online, a, k, r, st)
            except Exception as e:       # an oracle that cannot cope with a call says so; it never invents a violation
                online.count('oracle_gave_up:%s' % type(e).__name__)
            finally:
                online.busy = False
            return r
        setattr(owner, name, wrapper)
        rec._orig.append((owner, name, orig))
        return wrapper


class XWork:
    def __init__(self, host):
        self.host = host
        self.drivers = {}

    def driver(self, pid):
        d = self.drivers.get(pid)
        if d is None:
            d = importlib.import_module(DRIVERS[pid]).CHECK
            d.tier = 'quick'
            d.workdir = tempfile.mkdtemp(prefix='xw_%s_' % pid, dir=self.host.workdir)
            d.setup()
            self.drivers[pid] = d
        return d

    def teardown(self):
        for d in self.drivers.values():
            try:
                d.teardown()
            except Exception:
                pass
        self.drivers = {}

    def gen(self, pid, rng, classes=None, skip=()):
        """A case of the driver's own generator (stored whole, so that a replay does not depend on the generator)."""
        d = self.driver(pid)
        b = d.budget('quick')
        names = [c for c in sorted(b) if (classes is None or c in classes) and c not in skip and b[c] > 0]
        for _ in range(20):
            cls = rng.choices(names, weights=[b[c] ** 0.5 for c in names])[0]
            i = rng.randrange(10 ** 6)
            from vlib.harness import case_rng
            case = d.gen(cls, case_rng(rng.getrandbits(48), cls, i), i)
            if case is not None:
                return {'kind': 'xwork', 'driver': pid, 'dcls': cls, 'dcase': case}
        return None

    def gen_suite(self, files):
        return {'kind': 'xwork', 'driver': 'suite', 'files': list(files)}

    def run(self, case, out):
        """Run the driver's case; its verdict and its exceptions are not the host's business."""
        from vlib.harness import Out, repo_path
        if case['driver'] == 'suite':
            rc = run_suite_files(repo_path(), case['files'])
            out.count('xwork_suite_runs')
            out.count('xwork_suite_exit_%d' % rc)
            return
        d = self.driver(case['driver'])
        d.rec.new_case()
        try:
            d.run(case['dcase'], Out())
        except Exception as e:
            out.count('xwork_driver_case_raised')
        out.count('xwork_cases_via_%s' % case['driver'])


def run_suite_files(repo, files, extra_args=()):
    """Run test files of the repository's own suite in this process (monitors stay attached)."""
    import pytest
    cwd = os.getcwd()
    os.chdir(repo)
    try:
        with open(os.devnull, 'w') as null:
            so, se = sys.stdout, sys.stderr
            sys.stdout = sys.stderr = null
            try:
                rc = pytest.main(['-q', '-p', 'no:cacheprovider', '--no-header', '-x', '--rootdir', repo] + list(extra_args) +
                                 [os.path.join(repo, f) for f in files])
            finally:
                sys.stdout, sys.stderr = so, se
    finally:
        os.chdir(cwd)
    return int(rc)
