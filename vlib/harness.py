"""Case loop, shards, verdict discipline, evidence / replay writers (DESIGN.md section 1)."""
import os
import sys
import json
import time
import math
import signal
import numpy as np
import random
import hashlib
import shutil
import tempfile
import traceback
import subprocess
import faulthandler
import warnings

VERIF = os.path.dirname(os.path.dirname(os.path.abspath(__file__)))
DEPS = os.path.join(VERIF, '.deps')
PY = '/venv/bin/python'
WHEELS = '/opt/veriftools/wheels'


def repo_path():
    return os.path.abspath(os.environ.get('VERIF_REPO', '/repo'))


def ensure_deps():
    """icontract lives in git-ignored /verif/.deps; self-heal from the offline wheelhouse."""
    if not os.path.isdir(os.path.join(DEPS, 'icontract')):
        subprocess.run([PY, '-m', 'pip', 'install', '-q', '--no-index', '--find-links', WHEELS,
                        '--target', DEPS, 'icontract'], check=False,
                       stdout=subprocess.DEVNULL, stderr=subprocess.DEVNULL)
    if DEPS not in sys.path:
        sys.path.append(DEPS)


def activate_repo():
    rp = repo_path()
    if sys.path[0] != rp:
        sys.path.insert(0, rp)
    if VERIF not in sys.path:
        sys.path.insert(1, VERIF)
    import pydl
    here = os.path.realpath(os.path.dirname(os.path.dirname(pydl.__file__)))
    if here != os.path.realpath(rp):
        raise RuntimeError('pydl imported from %s, expected %s' % (here, rp))
    return rp


class CaseTimeout(BaseException):
    pass


class Out:
    """Verdict accumulator for one case."""
    __slots__ = ('fails', 'undecided', 'counters', 'nontrivial', 'info', 'checks', 'replay_case')

    def __init__(self):
        self.fails = []
        self.undecided = 0
        self.counters = {}
        self.nontrivial = False
        self.info = {}
        self.checks = 0
        self.replay_case = None     # set when the witness needs more than this case (a sequence of cases in one process)

    def fail(self, clause, msg, **detail):
        d = {'clause': clause, 'msg': str(msg)[:2000]}
        if detail:
            d['detail'] = jsonable(detail)
        self.fails.append(d)

    def expect(self, cond, clause, msg='', **detail):
        self.checks += 1
        if not cond:
            self.fail(clause, msg, **detail)
        return bool(cond)

    def count(self, name, n=1):
        self.counters[name] = self.counters.get(name, 0) + n

    def undecide(self, n=1):
        self.undecided += n


def jsonable(x, depth=0):
    import numpy as np
    if depth > 8:
        return repr(x)[:200]
    if isinstance(x, dict):
        return {str(k): jsonable(v, depth + 1) for k, v in x.items()}
    if isinstance(x, (list, tuple, set, frozenset)):
        return [jsonable(v, depth + 1) for v in x]
    if isinstance(x, np.ndarray):
        if x.dtype.kind in 'SUV' or x.dtype.kind == 'O':
            return repr(x)[:2000]
        if x.size > 400:
            return {'shape': list(x.shape), 'dtype': str(x.dtype), 'head': jsonable(x.ravel()[:50].tolist())}
        return jsonable(x.tolist(), depth + 1)
    if isinstance(x, np.generic):
        return jsonable(x.item(), depth + 1)
    if isinstance(x, bytes):
        try:
            return x.decode('ascii')
        except Exception:
            return repr(x)
    if isinstance(x, float):
        return x
    if isinstance(x, (str, int, bool, type(None))):
        return x
    return repr(x)[:500]


def case_hash(case):
    return hashlib.sha1(json.dumps(case, sort_keys=True, default=repr).encode()).hexdigest()[:16]


def case_rng(seed, cls, i):
    return random.Random('%s|%s|%d' % (seed, cls, i))


def np_rng(rng):
    import numpy as np
    return np.random.default_rng(rng.getrandbits(64))


class Check:
    """Base class of a per-property check (checks/cNN_*.py define ``CHECK = Sub()``)."""
    ID = None
    LEVEL = 'exploration'
    RULE = ''
    ASSUMPTIONS = []
    MIN_NONTRIVIAL = 2
    CASE_CPU_S = 60.0            # per-case CPU budget (ITIMER_VIRTUAL): logical, load independent
    REQUIRED_COUNTERS = ()       # named counters that must be > 0 or the run is inconclusive
    REQUIRED_REACH = {}          # label -> minimal fraction of lines reached
    QUICK_SHARDS = 4
    THOROUGH_SHARDS = 16
    SHARD_WALL_S = {'quick': 900, 'thorough': 7200}
    EXHAUSTIVE = False

    def __init__(self):
        from vlib.monitors import Recorder, ReachMonitor
        from vlib.brd import BufferReuse
        self.rec = Recorder()
        self.reach = ReachMonitor()
        self.brd = BufferReuse()     # buffer-reuse differential monitor (vlib/brd.py); a check attaches its pure functions in setup()
        self.tier = 'quick'
        self.workdir = None

    # -- to override -------------------------------------------------------
    def setup(self):
        pass

    def teardown(self):
        pass

    def budget(self, tier):
        """{class_name: number_of_cases}"""
        raise NotImplementedError

    def gen(self, cls, rng, i):
        raise NotImplementedError

    def run(self, case, out):
        raise NotImplementedError

    def classify(self, case, out):
        """mechanism key of a known finding that explains *all* fails of this case, or None."""
        return None

    def summarise(self, case):
        return case

    def extra_evidence(self, merged):
        return {}


# ---------------------------------------------------------------------------
# shard worker
# ---------------------------------------------------------------------------
def _alarm(signum, frame):
    raise CaseTimeout('case exceeded its CPU budget')


def canary_setup(check):
    """A check may define canary(): a fixed, ordinary call sequence of the functions under test whose answer cannot
    legitimately depend on what ran before it in the process.  It returns a list of comparable tuples, ('raised', type, text)
    for a call that raised.  Its answer in the fresh process (taken twice, right after setup) is the reference; it is run again
    after every case, so a case also observes what its calls leave behind for the next caller (numpy error state, warning
    filters, module globals, caches, default arguments ...).  canary() must not use np.errstate()/catch_warnings(record=...)
    in a way that would itself put such state back."""
    check._canary_ref = None
    if hasattr(check, 'canary'):
        check._canary_ref = check.canary()
        check._canary_twice = check.canary() == check._canary_ref


def canary_check(check, out):
    if getattr(check, '_canary_ref', None) is None:
        return
    got = check.canary()
    out.count('canary_sequences')
    bad = [r for r in got if r[0] == 'raised']
    if bad or not check._canary_twice:
        out.fail('history', 'the fixed canary sequence (ordinary calls one after another) %s'
                 % ('raised %s: %s' % tuple(bad[0][1:3]) if bad else 'gave two different answers when run twice in the fresh process'),
                 numpy_errstate=str(np.geterr()))
    elif got != check._canary_ref:
        k = [i for i, (a, b) in enumerate(zip(got, check._canary_ref)) if a != b][0]
        out.fail('history', 'after this case the fixed canary sequence gives another answer than in the fresh process (call %d): '
                 'something the calls left behind changes later, unrelated calls' % k, numpy_errstate=str(np.geterr()))


def run_one(check, case, cls, idx):
    out = Out()
    check.rec.new_case()
    errstate0 = np.geterr()
    signal.setitimer(signal.ITIMER_VIRTUAL, check.CASE_CPU_S)
    try:
        try:
            try:
                # a witness may be a sequence of cases run one after another in the same process (what the first leaves behind is
                # what the second meets): {'kind': '__sequence__', 'cases': [...]}
                seq = case['cases'] if isinstance(case, dict) and case.get('kind') == '__sequence__' else [case]
                for sub in seq:
                    check.brd.new_case(sub)
                    try:
                        check.run(sub, out)
                    finally:
                        bf, bc, bseq = check.brd.drain()
                        for n_, v_ in bc.items():
                            out.count(n_, v_)
                        for clause_, msg_, detail_ in bf:
                            out.fail(clause_, msg_, **detail_)
                        if bf and bseq and len(seq) == 1 and len(bseq) > 1:
                            out.replay_case = {'kind': '__sequence__', 'cases': bseq}
            finally:
                canary_check(check, out)
                if np.geterr() != errstate0:
                    # diagnostic only: the verdict comes from the canary / later calls, not from the state itself
                    out.info['numpy_errstate_changed'] = '%s -> %s' % (errstate0, np.geterr())
                    out.count('numpy_errstate_changed_by_case')
        finally:
            signal.setitimer(signal.ITIMER_VIRTUAL, 0)
    except CaseTimeout:
        out.fail('returns', 'call did not return within %.0f s of CPU time' % check.CASE_CPU_S,
                 stack=traceback.format_exc()[-3000:])
    except Exception as e:
        tb = traceback.extract_tb(e.__traceback__)
        inner = [f for f in tb if '/pydl/' in f.filename]
        site = ('%s:%d %s' % (os.path.basename(inner[-1].filename), inner[-1].lineno, inner[-1].name)) if inner else None
        harness_bug = not inner
        out.fail('harness-error' if harness_bug else 'exception',
                 '%s: %s' % (type(e).__name__, e), site=site, type=type(e).__name__,
                 traceback=traceback.format_exc()[-3000:])
    return out


def shard_main(check, tier, shard, nshards, seed, outpath, findings):
    warnings.simplefilter('ignore')
    faulthandler.enable()
    signal.signal(signal.SIGVTALRM, _alarm)      # the per-case CPU budget raises CaseTimeout in the case, it does not kill the shard
    check.tier = tier
    check.workdir = tempfile.mkdtemp(prefix='verif_%s_' % check.ID)
    t0 = time.time()
    res = {'evaluations': 0, 'hashes': [], 'per_class': {}, 'undecided': 0, 'counters': {},
           'violations': [], 'known': {}, 'samples': [], 'oracle_checks': 0, 'harness_errors': 0,
           'witness': {}}
    try:
        check.setup()
        canary_setup(check)
        check.reach.start()
        budget = check.budget(tier)
        nont = set()
        per_class_samples = {}
        vcount = {}
        # witness cases of known findings first (shard 0 only)
        todo = []
        if shard == 0:
            for f in findings:
                if f.get('witness') is not None and f.get('witness_for', f['properties'][0]) == check.ID:
                    todo.append(('witness:' + f['id'], -1, f['witness'], f))
        wall_cap = check.SHARD_WALL_S[tier] * 0.9
        for cls, n in budget.items():
            for i in range(shard, n, nshards):
                todo.append((cls, i, None, None))
        for cls, i, case, finding in todo:
            if time.time() - t0 > wall_cap:
                res['truncated'] = True
                break
            if case is None:
                rng = case_rng(seed, cls, i)
                case = check.gen(cls, rng, i)
                if case is None:
                    continue
            out = run_one(check, case, cls, i)
            res['evaluations'] += 1
            res['oracle_checks'] += out.checks
            pc = res['per_class'].setdefault(cls, {'n': 0, 'nontrivial': 0, 'fail': 0})
            pc['n'] += 1
            res['undecided'] += out.undecided
            for k, v in out.counters.items():
                res['counters'][k] = res['counters'].get(k, 0) + v
            h = case_hash(case)
            if out.nontrivial:
                pc['nontrivial'] += 1
                nont.add(h)
                s = per_class_samples.setdefault(cls, [])
                if len(s) < 1 and not out.fails:
                    s.append({'class': cls, 'index': i, 'case': check.summarise(case), 'info': jsonable(out.info)})
            if finding is not None:
                mech = check.classify(case, out) if out.fails else None
                res['witness'][finding['id']] = {'failed': bool(out.fails), 'mechanism': mech,
                                                 'clauses': sorted({f['clause'] for f in out.fails})}
            if out.fails:
                pc['fail'] += 1
                if any(f['clause'] == 'harness-error' for f in out.fails):
                    res['harness_errors'] += 1
                mech = check.classify(case, out)
                rec = {'property': check.ID, 'class': cls, 'index': i, 'seed': seed, 'hash': h,
                       'mechanism': mech, 'case': out.replay_case or case, 'fails': out.fails,
                       'events': jsonable(check.rec.events[-100:]), 'info': jsonable(out.info)}
                if finding is not None:
                    rec['finding'] = finding['id']
                    rec['finding_status'] = finding['status']
                vkey = (cls, str(mech), tuple(sorted({f['clause'] for f in out.fails})))
                vcount[vkey] = vcount.get(vkey, 0) + 1
                if vcount[vkey] <= 2 and len(res['violations']) < 60:
                    res['violations'].append(rec)
                res['known'][str(mech)] = res['known'].get(str(mech), 0) + 1
        res['hashes'] = sorted(nont)
        for s in per_class_samples.values():
            res['samples'].extend(s)
        check.reach.stop()
        res['reach'] = check.reach.report()
        res['calls'] = dict(check.rec.calls)
        res['raises'] = dict(check.rec.raises)
        res.update(check.shard_extra() if hasattr(check, 'shard_extra') else {})
    finally:
        try:
            check.teardown()
        finally:
            shutil.rmtree(check.workdir, ignore_errors=True)
    res['wall_s'] = time.time() - t0
    with open(outpath, 'w') as f:
        json.dump(res, f, default=repr)


# ---------------------------------------------------------------------------
# parent: shards, merge, verdict, evidence
# ---------------------------------------------------------------------------
def load_findings(pid):
    p = os.path.join(VERIF, 'known_findings.json')
    if not os.path.exists(p):
        return []
    with open(p) as f:
        data = json.load(f)
    return [x for x in data.get('findings', []) if pid in x.get('properties', [x.get('property')])]


def write_replay(pid, rec):
    d = os.path.join(VERIF, 'replays', pid)
    os.makedirs(d, exist_ok=True)
    p = os.path.join(d, rec['hash'] + '.json')
    with open(p, 'w') as f:
        json.dump(rec, f, indent=1, default=repr)
    return p


def parent_main(check, tier, seed, argv0, module_name):
    from vlib.monitors import merge_reach
    t0 = time.time()
    pid = check.ID
    nshards = check.QUICK_SHARDS if tier == 'quick' else check.THOROUGH_SHARDS
    nshards = int(os.environ.get('VERIF_SHARDS', nshards))
    findings = load_findings(pid)
    scratch = tempfile.mkdtemp(prefix='verif_parent_%s_' % pid)
    env = dict(os.environ)
    env['PYTHONHASHSEED'] = '0'
    env['VERIF_TIER'] = tier
    env['VERIF_SEED'] = str(seed)
    env.setdefault('OMP_NUM_THREADS', '1')
    env.setdefault('OPENBLAS_NUM_THREADS', '1')
    env.setdefault('MKL_NUM_THREADS', '1')
    env.setdefault('MPLBACKEND', 'Agg')
    procs = []
    for s in range(nshards):
        outp = os.path.join(scratch, 'shard%d.json' % s)
        errp = os.path.join(scratch, 'shard%d.err' % s)
        cmd = [PY, argv0, pid, '--tier', tier, '--shard', '%d/%d' % (s, nshards), '--out', outp]
        procs.append((s, outp, errp, subprocess.Popen(cmd, env=env, stdout=open(errp + '.out', 'w'),
                                                      stderr=open(errp, 'w'), cwd=VERIF)))
    inconclusive = []
    results = []
    deadline = time.time() + check.SHARD_WALL_S[tier]
    for s, outp, errp, p in procs:
        try:
            rc = p.wait(timeout=max(1, deadline - time.time()))
        except subprocess.TimeoutExpired:
            p.send_signal(signal.SIGABRT)   # faulthandler dumps the stack
            try:
                p.wait(10)
            except subprocess.TimeoutExpired:
                p.kill()
            inconclusive.append('shard %d wall-clock watchdog fired: %s' % (s, _tail(errp)))
            continue
        if rc != 0 or not os.path.exists(outp):
            inconclusive.append('shard %d exited %s: %s' % (s, rc, _tail(errp)))
            continue
        with open(outp) as f:
            results.append(json.load(f))
    shutil.rmtree(scratch, ignore_errors=True)

    merged = {'evaluations': 0, 'per_class': {}, 'undecided': 0, 'counters': {}, 'calls': {}, 'raises': {},
              'oracle_checks': 0, 'harness_errors': 0, 'witness': {}}
    hashes = set()
    samples = []
    viols = []
    for r in results:
        merged['evaluations'] += r['evaluations']
        merged['undecided'] += r['undecided']
        merged['oracle_checks'] += r['oracle_checks']
        merged['harness_errors'] += r['harness_errors']
        merged['witness'].update(r.get('witness', {}))
        hashes.update(r['hashes'])
        samples.extend(r['samples'])
        viols.extend(r['violations'])
        if r.get('truncated'):
            merged['truncated'] = True
        for k in ('counters', 'calls', 'raises'):
            for n, v in r.get(k, {}).items():
                merged[k][n] = merged[k].get(n, 0) + v
        for c, d in r['per_class'].items():
            m = merged['per_class'].setdefault(c, {'n': 0, 'nontrivial': 0, 'fail': 0})
            for k in m:
                m[k] += d[k]
        for k, v in r.items():
            if k.startswith('x_'):
                merged.setdefault(k, []).append(v)
    reach = merge_reach([r.get('reach', {}) for r in results])

    open_mech = {f['mechanism']: f for f in findings if f['status'] == 'open'}
    real = []
    known_seen = {}
    known_total = {}
    for r in results:
        for k, v in r.get('known', {}).items():
            known_total[k] = known_total.get(k, 0) + v
    for v in viols:
        if all(f['clause'] == 'harness-error' for f in v['fails']):
            # (a case that also carries a failed clause of the property is a violation: what was observed before the
            # harness gave up on the case stands)
            inconclusive.append('harness error in case %s/%s: %s' % (v['class'], v['index'], v['fails'][0]['msg']))
            write_replay(pid, v)
            continue
        if v.get('mechanism') in open_mech:
            known_seen[v['mechanism']] = known_total.get(str(v['mechanism']), 1)
            continue
        real.append(v)

    # reach / counter requirements
    for name in check.REQUIRED_COUNTERS:
        if merged['counters'].get(name, 0) <= 0:
            inconclusive.append('required counter %r never incremented' % name)
    for lab, frac in check.REQUIRED_REACH.items():
        d = reach.get(lab)
        if d is None or d['lines_total'] == 0 or d['lines_hit'] / d['lines_total'] < frac:
            inconclusive.append('reach of %s below %.2f: %s' % (lab, frac, d))
    if len(hashes) < check.MIN_NONTRIVIAL:
        inconclusive.append('only %d distinct non-trivial cases (minimum %d)' % (len(hashes), check.MIN_NONTRIVIAL))
    if merged['evaluations'] == 0:
        inconclusive.append('no case executed')

    wall = time.time() - t0
    seen = set()
    samples_out = []
    for s in samples:
        if s['class'] not in seen:
            seen.add(s['class'])
            samples_out.append(s)
    samples_out = samples_out[:6]
    cov = {
        'evaluations': merged['evaluations'],
        'distinct_nontrivial': len(hashes),
        'rule': check.RULE,
        'samples': samples_out if samples_out else [{'note': 'no non-trivial passing case observed'}],
        'per_class': merged['per_class'],
        'oracle_checks_evaluated': merged['oracle_checks'],
        'undecided_in_ambiguity_band': merged['undecided'],
        'counters': merged['counters'],
        'events': {'calls': merged['calls'], 'raises': merged['raises']},
        'reach': {k: {'lines_hit': v['lines_hit'], 'lines_total': v['lines_total'],
                      'missed_lines': v['missed_lines'][:40]} for k, v in reach.items()},
        'known_findings_reobserved': known_seen,
        'witness_cases': merged['witness'],
        'shards': nshards,
        'inconclusive': inconclusive,
        'exhaustive': bool(check.EXHAUSTIVE and tier == 'thorough' and not merged.get('truncated')),
        'truncated_by_wall_cap': bool(merged.get('truncated')),
    }
    cov.update(check.extra_evidence(merged) or {})
    ev = {'property_id': pid, 'tier': tier, 'seed': seed, 'level': check.LEVEL, 'coverage': cov,
          'assumptions': list(check.ASSUMPTIONS) + _versions(), 'wall_s': round(wall, 2),
          'violations': len(real), 'verdict': 'violated' if real else ('inconclusive' if inconclusive else 'held-on-observed')}
    os.makedirs(os.path.join(VERIF, 'evidence'), exist_ok=True)
    with open(os.path.join(VERIF, 'evidence', pid + '.json'), 'w') as f:
        json.dump(ev, f, indent=1, default=repr)

    print('%s tier=%s seed=%d evaluations=%d distinct_nontrivial=%d oracle_checks=%d undecided=%d wall=%.1fs' % (
        pid, tier, seed, merged['evaluations'], len(hashes), merged['oracle_checks'], merged['undecided'], wall))
    print('  classes: ' + ', '.join('%s=%d%s' % (c, d['n'], ('(FAIL %d)' % d['fail']) if d['fail'] else '')
                                    for c, d in sorted(merged['per_class'].items())))
    if merged['counters']:
        print('  counters: ' + ', '.join('%s=%d' % kv for kv in sorted(merged['counters'].items())))
    for lab, d in reach.items():
        print('  reach %s: %d/%d lines' % (lab, d['lines_hit'], d['lines_total']))
    for f in findings:
        if f['status'] == 'open':
            print('KNOWN-FINDING: property=%s %s [%s; re-observed %d times this run]' % (
                pid, f['what'], f['id'], known_seen.get(f['mechanism'], 0)))
    if real:
        done = set()
        for v in real:
            key = (v['class'], tuple(sorted({f['clause'] for f in v['fails']})))
            if key in done and len(done) > 0:
                continue
            done.add(key)
            p = write_replay(pid, v)
            print('  witness: class=%s index=%s clause=%s: %s' % (v['class'], v['index'], v['fails'][0]['clause'],
                                                                v['fails'][0]['msg'][:300]))
            print('VIOLATION property=%s replay=%s' % (pid, p))
            if len(done) >= 8:
                break
        return 1
    if inconclusive:
        for r in inconclusive[:10]:
            print('INCONCLUSIVE property=%s reason=%s' % (pid, r[:600]))
        return 2
    print('HELD property=%s on everything observed' % pid)
    return 0


def _tail(path, n=1500):
    try:
        with open(path) as f:
            return f.read()[-n:].replace('\n', ' | ')
    except OSError:
        return ''


def _versions():
    import numpy
    import scipy
    import astropy
    return ['python %s, numpy %s, scipy %s, astropy %s' % (sys.version.split()[0], numpy.__version__,
                                                          scipy.__version__, astropy.__version__),
            'long double eps %.3g' % float(numpy.finfo(numpy.longdouble).eps),
            'repo under test: %s' % repo_path()]


def replay_main(check, path):
    warnings.simplefilter('ignore')
    with open(path) as f:
        rec = json.load(f)
    check.tier = 'quick'
    check.workdir = tempfile.mkdtemp(prefix='verif_%s_' % check.ID)
    signal.signal(signal.SIGVTALRM, _alarm)
    try:
        check.setup()
        canary_setup(check)
        check.brd.exhaustive = True
        out = run_one(check, rec['case'], rec.get('class'), rec.get('index'))
        for f in rec.get('fails', []):
            w = (f.get('detail') or {}).get('brd_witness')
            if w and not any(x['clause'] == f['clause'] for x in out.fails):
                msg = check.brd.replay_witness(w)
                if msg:
                    out.fail(f['clause'], msg)
    finally:
        check.teardown()
        shutil.rmtree(check.workdir, ignore_errors=True)
    if out.fails:
        mech = check.classify(rec['case'], out)
        for f in out.fails:
            print('FAIL clause=%s: %s' % (f['clause'], f['msg']))
            if 'detail' in f:
                print('   detail: %s' % json.dumps(f['detail'], default=repr)[:3000])
        open_mech = {f['mechanism'] for f in load_findings(check.ID) if f['status'] == 'open'}
        if mech in open_mech:
            print('KNOWN-FINDING: property=%s mechanism=%s' % (check.ID, mech))
            return 0
        print('VIOLATION property=%s replay=%s' % (check.ID, path))
        return 1
    print('replay passes: property=%s %s' % (check.ID, path))
    return 0
